"""Static per-property configuration of the driver: shards (quick, thorough), evidence texts."""

COMMON_ASSUME = [
    "Go toolchain, pgregory.net/rapid v1.3.0 and the harness reference models are trusted",
    "absence of violations is only established for the generated cases counted here",
]

HOOK_COMMITS = []

NOT_APPLICABLE = {}

PBT = "property-based testing (rapid)"

PROPS = {
    "C16": {
        "shards": (1, 2),
        "rule": "all 2^9 subsets of {elemhide,generichide,jsinject,document,urlblock,genericblock,content,extension,important} "
                "on an exception rule (direct GetCosmeticOption and through Engine.MatchRequest+GetCosmeticResult), on a blocking rule, "
                "and no basic rule, enumerated exhaustively; plus rapid-sampled written orders/patterns. Oracle: All minus union(disabled(m)); "
                "monotone under adding any modifier. Non-trivial = exception with >=2 modifiers of which at least one disables something; distinct by (kind, modifier set).",
        "exhaustive_note": "all 512 modifier subsets x {exception, engine, block} + absent rule",
        "technique": "exhaustive enumeration of the finite modifier-subset space + rapid sampling against a set-algebra oracle",
        "level_text": "Exhaustive over the finite space the property quantifies over (512 subsets x 3 rule kinds + absent rule), so within that space the property is decided; sampled for written order and pattern.",
        "level_note": "Trusted: the harness oracle table of which modifier disables which option (taken from the property statement).",
        "assumptions": COMMON_ASSUME + ["document implies elemhide+jsinject+urlblock+content+extension as documented"],
    },
}
