"""Static per-property configuration of the driver: shards (quick, thorough), evidence texts."""

COMMON_ASSUME = [
    "Go toolchain, pgregory.net/rapid v1.3.0 and the harness reference models are trusted",
    "absence of violations is only established for the generated cases counted here",
]

HOOK_COMMITS = ["8b5281d", "a545a32"]

NOT_APPLICABLE = {}

PBT = "property-based testing (rapid)"

PROPS = {
    "C16": {
        "shards": (1, 2),
        "rule": "all 2^9 subsets of {elemhide,generichide,jsinject,document,urlblock,genericblock,content,extension,important} "
                "on an exception rule (direct GetCosmeticOption and through Engine.MatchRequest+GetCosmeticResult), on a blocking rule, as a referrer-only (document) rule with no basic rule (struct and engine), with replace/csp/stealth rules present, "
                "and no basic rule, enumerated exhaustively; plus rapid-sampled written orders/patterns. Oracle: All minus union(disabled(m)); "
                "monotone under adding any modifier; the option is the same before and after GetBasicResult is evaluated; an $important block listed before or after the exception changes the option only for non-important exceptions; END TO END: every subset's page is fetched through the real proxy.Server (loop-back port, in-process web server, one exception rule per subset) with four Accept headers and the option is read from the injected tag; through the engine the selectors of generic, specific, wildcard-TLD and generic-with-excluded-domains rules are present iff the option says so. Non-trivial = exception with >=2 modifiers of which at least one disables something; distinct by (kind, modifier set).",
        "exhaustive_note": "all 512 modifier subsets x {exception, engine, block, referrer-only (struct, engine), with other rule kinds} + absent rule",
        "technique": "exhaustive enumeration of the finite modifier-subset space + rapid sampling against a set-algebra oracle",
        "level_text": "Exhaustive over the finite space the property quantifies over (512 subsets x 3 rule kinds + absent rule), so within that space the property is decided; sampled for written order and pattern.",
        "level_note": "Trusted: the harness oracle table of which modifier disables which option (taken from the property statement).",
        "assumptions": COMMON_ASSUME + ["document implies elemhide+jsinject+urlblock+content+extension as documented"],
    },
    "C07": {
        "shards": (2, 8),
        "rule": "pool = full product of the features IsHigherPriority reads (exception x important x {no,permitted,restricted-only} domain x 4 content-type shapes x 4 flag options x {no,permitted,negated} dnstype x ctag x client x denyallow = 10368 rules, plus ~other and subdocument,~ping in the content-type dimension) and a second pool of 1024 exceptions carrying every subset of {elemhide,jsinject,urlblock,content,extension,genericblock,generichide,document} x important x $domain ($document counts as the five modifiers it abbreviates). "
                "Exhaustive: all ordered pairs of the pool (irreflexive, asymmetric, agreement with documented rank (class, specific, #modifiers)), every 'add one modifier' pair, all triples over a strided sub-pool (transitivity of > and of incomparability). "
                "rapid: sampled 2..5-rule law cases, and candidate lists of 2..6 near-tie rules fed in ALL permutations to NewMatchingResult and GetDNSBasicRule (winner not outranked, maximal documented rank, same rank for every order). "
                "Non-trivial/distinct = a pool rule whose full comparison row was checked, or a distinct candidate multiset for the selection check.",
        "exhaustive_note": "pairs over the whole feature pool and over the 1024 document-level exceptions; add-modifier pairs; triples over the sub-pool (stride 24 quick / 12 thorough)",
        "technique": "exhaustive enumeration over a feature-product pool + rapid-generated candidate lists over all permutations, oracle = documented rank tuple",
        "level_text": "Pairs are decided exhaustively over the pool that spans every feature the comparison reads; triples exhaustively over a sub-pool; selection sampled with all permutations.",
        "level_note": "Trusted: harness rank function (class, domain-specific, modifier count) derived from the rule text; $redirect is not parseable in this version and is not covered.",
        "assumptions": COMMON_ASSUME + ["the comparison reads only the features spanned by the pool (checked by reading IsHigherPriority; $redirect cannot be parsed)"],
    },
    "C09": {
        "shards": (4, 16),
        "rule": "sequences of $dnsrewrite rules for one host over an alphabet shape x important x exception; exhaustive up to a length bound (reduced alphabet of 22 symbols: len<=4 quick / <=5 thorough; full alphabet of 78 symbols incl. AAAA/TXT/PTR/MX/SRV/HTTPS/SVCB/REFUSED and one-field near misses of the structured values: len<=2 quick / <=3 thorough), each checked on a hand-built DNSResult and (len<=3) through a DNSEngine; rapid samples sequences of length 4..12. "
                "Oracle: two-pass filter of DNSRewritesAll() with value equality by content. Non-trivial = >=2 exceptions or an exception with a structured (MX/SRV/SVCB) value; distinct by (sequence, entry point).",
        "exhaustive_note": "all sequences up to the stated length bounds over the stated alphabets, partitioned over shards by first symbol",
        "technique": "bounded-exhaustive sequence enumeration + rapid sampling against a two-pass reference filter",
        "level_text": "Every sequence up to the length bound is enumerated, so order-dependence within the bound is decided; longer sequences are sampled.",
        "level_note": "Trusted: reflect.DeepEqual as value equality; the $dnsrewrite parser (its shape is C10's subject).",
        "assumptions": COMMON_ASSUME + ["exception semantics as in the property statement; $badfilter on rewrite rules belongs to C08"],
    },
    "C04": {
        "shards": (4, 16),
        "rule": "rapid: NetRule models over the modifier grammar (third/first-party, match-case, content types incl/excl, $domain perm/restr with sub-domains and name.*, $denyallow, $dnstype, $ctag, $client names/IPs/CIDRs with quoting), rendered twice with independent modifier and value orders; 3..8 requests per rule built from the rule (all modifiers satisfied, then 0..2 field groups re-drawn; 1 in 5 unsteered). "
                "Oracle: reference mask matcher on the documented target AND text-level modifier evaluator. Non-trivial = rule with >=2 modifiers and a request whose pattern part matches (outcome decided by modifiers); distinct by (rule text, request). labels 'decided-by:*' give the distribution of the deciding conjunct.",
        "technique": "model-render-parse property-based testing (rapid) against an independent reference evaluator",
        "level_text": "Generated search over the modifier grammar; each modifier is individually decisive in a measured share of cases (see labels).",
        "level_note": "Trusted: harness reference (refMask, refMatch, publicsuffix list from x/net).",
        "assumptions": COMMON_ASSUME + ["host names are lower-case in host-name requests (caller pre-condition)", "IPv4-mapped client addresses and zones are not generated"],
    },
    "C03": {
        "shards": (8, 16),
        "rule": "mask patterns = (''|'|'|'||') + token sequence + (''|'|'|'/*') over 35 tokens (the 3 operators, letters in both cases, a digit, every regex metacharacter and punctuation class, space), enumerated exhaustively for 1..2 tokens (quick) / 1..3 and 4 on a reduced alphabet (thorough), with and without match-case; each pattern is run on ALL strings up to a length bound (3..5) over the pattern's own bytes (both cases) + {a / . % : _}, for || patterns also behind 9 scheme/sub-domain prefixes; rapid samples 2..8-token patterns with regex idioms as literals (a{2}, (x|y), [a-c], \\d ...) and 10..30 strings derived from the token list with mutations. "
                "Oracle: hand-written mask matcher vs (1) the prepared *regexp.Regexp (hook) and (2) NetworkRule.Match. Non-trivial = pattern with an operator whose string set has both accepted and rejected strings; distinct by (pattern, match-case).",
        "exhaustive_note": "all patterns up to the token bound, each against all strings up to the length bound over the pattern-derived alphabet",
        "technique": "bounded-exhaustive pattern x string enumeration + rapid sampling against a reference mask matcher",
        "level_text": "Decides the property for every pattern up to the token bound on every string up to the length bound; beyond that sampled. The quantifier's per-pattern decision for ALL strings (automata equivalence) is a different technique and is not claimed.",
        "level_note": "Trusted: the reference matcher (separator class [^ a-zA-Z0-9.%_-]|$, || = (http|https|ws|wss):// + optional [a-z0-9_.-]+\\.); strings are sampled/bounded, not all strings.",
        "assumptions": COMMON_ASSUME + ["strings are printable ASCII without newline", "patterns ending in a backslash, starting with @@ or of the /regex/ form are other syntax and are skipped (counted in labels)"],
    },
    "C05": {
        "shards": (4, 16),
        "rule": "rapid: (a) regex rules from a grammar (alternation at top level and in groups, capturing/non-capturing groups, classes, escapes \\d \\w \\s \\b \\xHH, quantifiers * + ? {m,n} with m=0, anchors, case-mixed literals), (b) mask patterns from the C03 generators plus literal-heavy masks, (c) every regex rule of the bundled lists (easylist, SDN filter, Russian filter). Witness strings are sampled from the regexp/syntax parse tree (random branch, repetition count incl. zero/minimum, class member, case flips) or derived from the mask token list, and kept only if the rule's own prepared matcher (hook) accepts them. "
                "Oracle: accepted(u) => lower(u) contains Shortcut, and Match(u) is true. Non-trivial = rule with a non-empty shortcut and >=2 distinct accepted witnesses; distinct by rule text.",
        "technique": "property-based testing (rapid) with grammar-based rule generation and parse-tree witness sampling; implication oracle",
        "level_text": "Sampled search for a counterexample to the implication; the per-rule decision by language emptiness that the quantifier mentions is a different technique and is not claimed.",
        "level_note": "Trusted: Go regexp as the definition of what a compiled pattern accepts; witnesses are sampled, so a counterexample that needs a very specific string can be missed.",
        "assumptions": COMMON_ASSUME + ["strings are printable ASCII (Unicode case folding is outside the property)"],
    },
    "C01": {
        "shards": (4, 16),
        "rule": "rapid: 1..4 lists (ids from {-2^31,-1,0,1,2^31-1,...} or random int32, String or File backed), 0..40 network rules from the modifier grammar over a pattern vocabulary that populates all three tables (long literals with several 5-byte windows, windows shared between rules, FastHash-colliding windows and $domain values, short shortcuts with/without $domain, name.* domains, regexes, any-URL shortcuts), duplicates, noise lines, generated insertion order and split; 5..30 requests per engine built from the rules (web and host-name, client/ctag/dnstype fields, windows at URL end, repeated windows, colliding strings). "
                "Oracle: set of texts of NetworkEngine.MatchAll == set of texts of lines that parse to a network rule and whose FRESH rule object matches a FRESH request (no index, storage or cache); returned list id must belong to a list containing the text. Non-trivial = some rule matches and the rules populate >=2 tables; distinct by (lists, request).",
        "technique": "differential property-based testing (rapid): indexed lookup vs linear scan",
        "level_text": "Generated search over lists x requests with a linear-scan reference; labels report which table served the hits.",
        "level_note": "Trusted: NetworkRule.Match itself (the property says 'individually match'; its correctness is C03-C05).",
        "assumptions": COMMON_ASSUME + ["compared as sets of rule texts (equal texts are de-duplicated by the sequential table, which the statement allows)"],
    },
    "C02": {
        "shards": (4, 16),
        "rule": "rapid: 1..3 lists mixing host-level network rules, browser-only rules ($domain, third-party, match-case, mixed content types, document-level exceptions, popup), $dnsrewrite rules, badfilter twins, hosts lines (v4, v6, IPv4-mapped, several names, a name on several lines), bare domains, over a host universe with FastHash-colliding names; 4..12 DNS requests each (type, client name/IP, sorted tags) steered to the rules. "
                "Oracle: linear scan: NetworkRules == applicable(model) AND text-level reference match (masks and /regex/ patterns evaluated on the rule text; fresh Match only for model-less lines); basic rule nil iff reference class none, else same class and member of the matching set, host slices empty; otherwise HostRulesV4/V6 == lines naming the host split by textual address family; matched == basic or host entry. Non-trivial = non-empty answer from a list containing both hosts lines and network rules; distinct by (entries, request).",
        "technique": "differential property-based testing (rapid): DNS engine vs reference resolution by linear scan",
        "level_text": "Generated search with a reference resolution; hash-collision buckets are forced by construction.",
        "level_note": "Trusted: NetworkRule.Match/NewRule for classification of a line; applicability is computed on the generated model, not by IsHostLevelNetworkRule.",
        "assumptions": COMMON_ASSUME + ["host names are lower-case and non-empty (caller pre-condition)", "sets of rule texts are compared (a line naming a host twice is indexed twice)"],
    },
    "C06": {
        "shards": (4, 16),
        "rule": "rapid: multisets of 1..6 request candidates (all matching one fixed request) and 0..4 referrer candidates drawn from the product {exception, important, $domain-specific, content type, urlblock/genericblock/document/elemhide/jsinject, $dnsrewrite, $stealth, $badfilter twins}, and a DNS flavour with host-level candidates. Each multiset is fed in ALL permutations (n<=5; rotations+reversals above) of request and referrer rules to NewMatchingResult / GetDNSBasicRule, and in 1..3 generated line orders and 1..3-way list splits through Engine.MatchRequest, NetworkEngine.Match and DNSEngine.MatchRequest; optionally the lists also hold exceptions for ANOTHER page of the referrer's host, and the same engine is asked from that page, from the referrer proper and from that page again, each against its own reference class. "
                "Oracle: documented precedence computed from the rule texts; result never a rewrite/badfilter/stealth rule. Non-trivial = >=2 distinct verdict classes among candidates or a document-level exception on the referrer; distinct by multiset.",
        "technique": "property-based testing (rapid) over candidate multisets x all permutations against a text-level precedence model",
        "level_text": "Order-independence is decided for every generated multiset by exhausting its permutations (up to 5 rules); multisets are sampled from the feature product.",
        "level_note": "Trusted: the text-level precedence function; candidates are a fixed vocabulary all matching one request (matching itself is C01/C04).",
        "assumptions": COMMON_ASSUME + ["$replace/$cookie/$csp rules are not parseable in this version and are not covered"],
    },
    "C08": {
        "shards": (4, 16),
        "rule": "rapid: base list of 0..8 generated rules; 1..4 added rules (any modifiers incl. $denyallow, $dnstype, $dnsrewrite, $client, siblings that differ from an earlier added rule in one value) each structurally distinct from every other rule, inserted together with their $badfilter twins (modifier and value order re-drawn) at generated positions in 1..3 lists; second family: a lone twin whose rule is absent while a one-value near miss sits in the base list. 3..8 requests (web and DNS) built from the rules. "
                "Oracle (metamorphic): verdict class through Engine.MatchRequest, NetworkEngine.Match and DNSEngine.MatchRequest (+ set of DNSRewrites texts, host rules, matched) is identical for the base lists and the lists with the additions; no result object is a badfilter rule. Non-trivial = >=2 badfilter rules present or an added rule carries $denyallow/$dnstype/$dnsrewrite; distinct by (lists, request).",
        "technique": "metamorphic property-based testing (rapid): list vs list + {rule, rule$badfilter}",
        "level_text": "Sampled metamorphic search; identity 'apart from badfilter' is decided on the generated models (value sets, not written order).",
        "level_note": "Trusted: the harness notion of structural identity (exception flag, pattern, modifier value sets).",
        "assumptions": COMMON_ASSUME + ["the order of values inside a modifier is not part of a rule's identity (C04: value order never matters; the repository's own tests expect this for $ctag and $client)"],
    },
    "C10": {
        "shards": (4, 16),
        "fuzz": [("FuzzC10", 90)],
        "rule": "rapid grammar: short form (keywords, near-keywords, IPs incl. IPv4-mapped, bracketed and zoned, host names with bad labels) and full form RCODE;TYPE;VALUE over every rcode name class, every record type with a handler plus NS/SOA/ANY/NONE/RESERVED/unknown in mixed case, values with wrong field counts, uint16 bounds (-1, 0, 65535, 65536, 1e20, non-ASCII digits), dotted names, trailing dots, extra ';', escaped commas, free printable values; thorough adds native coverage-guided fuzzing over the raw value. "
                "Oracle: NewNetworkRule('||h^$dnsrewrite='+v) errors (and returns no rule) or yields a DNSRewrite satisfying the published shape predicate; a consumer-style type switch must not panic; parsing twice is deeply equal. Non-trivial = value accepted, or rejected although it has the three-field form (i.e. by an rcode/type/handler check); distinct by value.",
        "technique": "grammar-based property-based testing (rapid) + native coverage-guided fuzzing with a shape-predicate oracle",
        "level_text": "Generated and coverage-guided search for an accepted value with a wrong shape or a crash.",
        "level_note": "Trusted: the shape predicate transcribed from the RRValue/DNSRewrite documentation.",
        "assumptions": COMMON_ASSUME + ["a value is a single modifier value (no unescaped comma, no line break)"],
    },
    "C18": {
        "shards": (4, 16),
        "fuzz": [("FuzzC18", 60)],
        "rule": "rapid: lines 'IP (sp|tab)+ name ((sp|tab)+ name)* [ws* # any]' and 'name [ws* # any]' with IPv4, IPv6, IPv4-mapped addresses, 1..8 names (pool + generated), comments with or without a preceding blank over printable ASCII incl. '#', '$$', '$@$', names of other hosts, cosmetic-marker-like starts (only after a blank, as the property requires), trailing blanks. "
                "Oracle: NewRule gives a *HostRule with Hostnames == listed names, IP == parsed address (0.0.0.0 for a bare domain), Text == trimmed line; HostRule.Match(n) iff n listed, probed with the listed names, one-character truncations/extensions, upper-case variants and every token of the comment; DNSEngine.Match(n) returns the rule iff listed, under V4/V6 by address form. Non-trivial = line with a comment, >=2 names or an IPv6 address; distinct by line.",
        "technique": "grammar-based property-based testing (rapid) + native fuzzing of the free parts, reference = the generated model of the line",
        "level_text": "Generated search over the hosts-line grammar; the model of the line is the oracle, so parsing is never compared with itself.",
        "level_note": "Trusted: netip.ParseAddr for the address; lines outside the stated grammar are skipped and counted.",
        "assumptions": COMMON_ASSUME + ["a comment that starts with an element-hiding marker directly after a name is cosmetic syntax by definition (outside the contract)"],
    },
    "C17": {
        "shards": (4, 16),
        "fuzz": [("FuzzC17", 60)],
        "rule": "rapid: scheme://host[:port] + (nothing | /path | ?query) + optional #fragment (never directly after host/port); schemes incl. chrome-extension and upper case; hosts from labels x suffixes covering multi-level ICANN suffixes, wildcard and exception PSL rules (ck/www.ck, kobe.jp/city.kobe.jp), private suffixes (github.io, blogspot.com, s3.amazonaws.com), non-PSL TLDs, suffixes themselves, single labels, IPv4 literals, generated labels; paths/queries with '//', ':', '?', '@'; URLs straddling the 4096-byte cap; sources: empty, same host/parent/sibling/sub-domain of the URL host, or independent; plus NewRequestForHostname hosts. "
                "Oracle: net/url Hostname(), publicsuffix.EffectiveTLDPlusOne (host itself on error), third-party = source present and registrable domains differ, symmetric under swapping; URL = 4096-byte prefix; URLLowerCase = ASCII lower-casing. Non-trivial = host with >=3 labels or on a multi-label/private suffix; distinct by (url, source).",
        "technique": "differential property-based testing (rapid) against net/url and x/net/publicsuffix + native fuzzing with a contract filter",
        "level_text": "Generated search against the two standard libraries the property names as reference.",
        "level_note": "Trusted: net/url and golang.org/x/net/publicsuffix (the same PSL snapshot the repository depends on).",
        "assumptions": COMMON_ASSUME + ["URLs are within the stated contract (hierarchical, no userinfo, no fragment directly after the host, no empty host label); others are skipped and counted"],
    },
    "C15": {
        "shards": (4, 16),
        "rule": "rapid: 1..25 element-hiding rules/exceptions: generic, one or many permitted domains, negated domains, name.* wildcard TLDs, sub-domain-specific, multi-level and private suffixes, duplicate selectors, exceptions for some selectors; 1..8+ host names (listed domain, sub-domain, deeper sub-domain, sibling, label-boundary confusables, wildcard realisations, unrelated); all 8 flag combinations; through CosmeticEngine.Match and Engine.GetCosmeticResult. "
                "Oracle: selectors of non-exception rules with CosmeticRule.Match(host) minus those with a matching same-selector exception; nothing without CSS; generic dropped without GenericCSS; bucket by 'has a permitted domain'; compared as sets per bucket. Non-trivial = host is a strict sub-domain of / a wildcard match for some rule domain, or an exception applies; distinct by (rules, host).",
        "technique": "differential property-based testing (rapid): cosmetic engine vs linear scan with CosmeticRule.Match",
        "level_text": "Generated search with a linear-scan reference over all rules, hosts and flag combinations.",
        "level_note": "Trusted: CosmeticRule.Match as the definition of 'applies to the hostname' (the property names it); its domain semantics are exercised by C04's reference.",
        "assumptions": COMMON_ASSUME + ["selectors compared as sets per bucket (duplicates of one selector are not part of the statement)"],
    },
    "C11": {
        "shards": (4, 16),
        "fuzz": [("FuzzC11", 90)],
        "rule": "rapid: 1..4 lists with distinct ids from {-2^31,-1,0,1,2^31-1,...}/random int32, IgnoreCosmetic on/off, content assembled from a line pool (valid network/host/cosmetic rules, comments, blanks, whitespace-only and invalid lines, multi-byte UTF-8, invalid UTF-8, NUL bytes, tabs, lines of 4094..9000 bytes around the 4 KiB read buffer) with LF / CRLF / mixed endings, with or without final newline; every content is loaded String-backed and File-backed; thorough adds native fuzzing over raw content bytes. "
                "Oracle: scanned (kind, text, list id, index) sequence == reference parse (split after every LF, NewRule per line, index = id<<32 | offset); indexes pairwise distinct; after the scan RetrieveRule(idx) gives the same kind/text/list id for every index, cold and cached, typed retrieval consistent; on a second cold storage a rule is retrieved, all lists are scanned again and the rule starting 4096 bytes later is retrieved for the first time (content family of 32-byte lines); on a third cold storage four goroutines retrieve every index at once from different ends (yield hook between seek and read); String and File backings give identical sequences and identical Network/DNS/Cosmetic engine answers. Non-trivial = >=1 rule yielded and >=2 of {CRLF, line >=4095 bytes, non-ASCII byte, invalid/NUL line}; distinct by content hash.",
        "technique": "round-trip and differential property-based testing (rapid) + native fuzzing: scan vs reference parse vs retrieve, String vs File",
        "level_text": "Generated and coverage-guided search over list contents with a line-by-line reference parse and a scan/retrieve round trip.",
        "level_note": "Trusted: rules.NewRule for a single line (C12's subject); retrieval never runs WHILE a scanner is between two Scan calls (scanner and retrieval share the file offset), as with every engine constructor.",
        "assumptions": COMMON_ASSUME + ["list ids fit in 32 bits and are distinct; list offsets stay below 2^31"],
    },
    "C12": {
        "shards": (4, 16),
        "fuzz": [("FuzzC12", 180)],
        "rule": "rapid: (1) lines: rules rendered from the modifier grammar, a deterministic sample of the three bundled lists, the C11 line pool, short hostile constants (1-2 character patterns, lone markers, unbalanced regexes, empty modifier values) and random bytes, each with 0..3 byte-level mutations (insert a syntax token, delete, bit flip, truncate); every accepted line is matched against 2..5 generated requests (forcing the lazily compiled pattern) and loaded into Engine/NetworkEngine/DNSEngine which are queried; (2) inertness: 3..25 valid rules (network, hosts, cosmetic) with 0..10 noise lines (blank, comments, rejected lines; verified to be non-rules) inserted at generated positions and optional LF->CRLF switching; comments are recognised by the documented syntax at text level ('!...' or '#...' not opening with a cosmetic-rule marker, incl. '#@ x', '#?x', '#$ x', '#%x' and invalid UTF-8), the parser must yield no rule for them. thorough adds native fuzzing of (line, url, source, host). "
                "Oracle: no panic; nil for blank/comment only, else an error, else Text()==TrimSpace(line) and the given list id; answers (MatchAll texts, basic verdict, cosmetic option, DNS result incl. rewrites and host rules, cosmetic selectors) identical with and without noise. Non-trivial = line parsed into a rule (then matched), or a noise/CRLF case whose answers are non-empty; distinct by line / noisy text.",
        "technique": "grammar- and mutation-based property-based testing (rapid) + native coverage-guided fuzzing; crash oracle plus metamorphic inert-line relation",
        "level_text": "Generated and coverage-guided search for a crashing line/request and for a result change caused by inert lines.",
        "level_note": "Trusted: rules.NewRule as the definition of 'rejected line' (not of 'comment': that is decided on the text). Non-termination would show as the test timeout (reported as inconclusive, exit 2).",
        "assumptions": COMMON_ASSUME + ["a line contains no line feed", "callers check the error before using the returned rule"],
    },
    "C13": {
        "shards": (4, 16),
        "rule": "rapid histories (sequence generated as one shrinkable value): lists (String or File backed, 1..3 lists, all tables populated, hosts lines, cosmetic rules, $dnsrewrite rules and exceptions, plus field-sensitive rules that match iff client IP / client name / tag / record type / source has a given value) and 10..60 (thorough ..200) steps over ONE long-lived Engine+NetworkEngine+DNSEngine: queries built from the rules, bursts that toggle exactly one client field between otherwise equal queries, repeats of earlier queries, derived-result calls (DNSRewrites, DNSRewritesAll, GetDNSBasicRule, GetBasicResult, GetCosmeticOption) on OLD result objects, queries whose request object the caller mutates afterwards; the same DNS name in several letter cases in a row; rule blocks for the $domain buckets of a domain and its sub-domain, CNAME rewrites differing in letter case, per-page referrer exceptions, each with aimed question sequences; regex rules whose text is new to the process (ids from a process-wide counter, answers compared modulo the id) incl. one expression in a case-sensitive and a case-insensitive rule. "
                "Oracle: answer at each step == answer of a fresh storage+engines built from the same text for that query alone (canonical snapshot: sorted rule texts per field, flags, effective rewrites, cosmetic selectors); invariant after every step: snapshots of all earlier result objects unchanged (snapshots include the parsed rewrite data of the rules, read before and after the derived-result methods); histories may contain a read error that goes away again (lists wrapped so that the next retrieval fails once; the question asked meanwhile is not compared, every later one is); the questions touching the generated regex rules are asked again in the OPPOSITE order to fresh engines over lists with the expressions renamed apart and must get the same sets of matching rules (state that outlives an engine). Non-trivial = history repeats a query after a query with different client fields, or calls a derived-result method on an old result; distinct by history hash.",
        "technique": "stateful/model-based property-based testing (rapid): long-lived engine vs fresh engine per query, history invariant on earlier results",
        "level_text": "Sampled histories with a fresh-engine model; field toggling is built into the generator because unsteered histories miss pooled-request leaks.",
        "level_note": "Trusted: engine construction itself is deterministic (a fresh engine is the model).",
        "assumptions": COMMON_ASSUME + ["single goroutine (concurrency is C14)"],
    },
    "C14": {
        "shards": (4, 12),
        "race": True,
        "replay_repeat": 20,
        "timeout": [900, 7200],
        "rule": "rapid: lists as in C13 (String and File backed), a request multiset of 50..200 (thorough ..400) queries with duplicates and URLs/hosts that hit shared buckets, partitioned over 2..32 goroutines released by a barrier on a cold (3 in 4) or half-warm cache, in a binary built with the race detector; the verif yield hook (cache miss, before cache insert, between file seek and read, before lazy regexp compile, after taking a pooled request) calls Gosched or sleeps 0..50us following a stream derived from the generated seed. "
                "Oracle: every concurrent answer == the sequential answer of a separate fresh engine, compared as sorted MULTISETS of rule texts plus flags (a rule reported twice is a difference); no goroutine panics; any race-detector report is a violation (GORACE halt_on_error). Non-trivial = >=2 goroutines were inside the cold-retrieval path at the same time, or a lazy compile happened during the concurrent phase (measured through the hook); distinct by case hash.",
        "technique": "property-based concurrency testing (rapid) under the race detector with hook-driven schedule perturbation; differential oracle vs sequential execution",
        "level_text": "Schedules are sampled (Go scheduler + perturbation), not enumerated; a violation that needs one exact interleaving can be missed. Reported as exploration.",
        "level_note": "Trusted: the Go race detector; sequential execution on a fresh engine as the model. Failures are schedule dependent: a replay re-runs the case 20 times.",
        "assumptions": COMMON_ASSUME + ["engines are only queried (no reconstruction) during the concurrent phase"],
    },
    "C19": {
        "level": "fault_enumeration",
        "shards": (4, 16),
        "rule": "rapid generates (file-backed lists covering all three network tables, hosts lines, rewrites; history q1..qn with n<=12, DNS and web, repeats); for EACH generated pair EVERY fault point k in 0..n x kind in {storage.Close(), list.File replaced by an already-closed *os.File} is enumerated on a freshly built engine; evaluations = (history, fault point, query) triples. "
                "Oracle: for i>=k no panic, result(qi) subset of the fault-free answer, every rule returned before k that matches qi is still returned; for i<k results equal the fault-free answer. Further kinds and phases: only the first list unreadable; four goroutines querying after a partial fault; four goroutines loading the rules on a cold cache BEFORE the fault and sequential questions after it; list ids that cross with byte offsets of the other list; a rule text of more than a kilobyte. A fatal error of the Go runtime (unsynchronised map access) that kills the shard is reported as a violation with the case the shard was running. Non-trivial = some query after the fault has a matching rule that was materialised before the fault; distinct by (lists, history).",
        "exhaustive_note": "for every generated (lists, history): all n+1 fault points x 2 fault kinds",
        "technique": "fault-point enumeration over rapid-generated (list, history) pairs with a fault-free engine as oracle",
        "level_text": "Every fault point of every generated history is enumerated; histories and lists are sampled.",
        "level_note": "Trusted: the fault-free String-backed engine as oracle; faults are injected through the public Close() and the exported File field only.",
        "assumptions": COMMON_ASSUME + ["single goroutine", "fault kinds: storage closed, file handle replaced by a closed descriptor (as the property lists)"],
    },
    "C20": {
        "shards": (4, 16),
        "fuzz": [("FuzzC20", 60)],
        "rule": "rapid: bodies of 0..48 KiB assembled from segments (ASCII, high-byte runs, all 256 byte values) and 0..4 markers (</head, <link, <style, <script in any letter case, truncated and near-miss markers) with segment lengths that put a marker before, within +-12 bytes of, and beyond the 16 KiB window, also +-8 around the half window for high-byte prefixes (which double when transcoded); plain or gzip Content-Encoding (one or 2..4 concatenated members); CSP headers; stale or absent (-1) declared length; optionally preceded by a response whose gzip body is cut off (its filtering fails); documents that are gzip streams themselves, non-marker tags such as <body>, a mere mention of the content-script address, bodies around and beyond 4 MiB; a quarter of the cases is additionally served by an in-process web server and fetched through the real proxy.Server on a loop-back port (same reconstruction oracle, tag located by its rendered form); thorough adds native fuzzing of the body. "
                "Oracle (through the verif hook VerifFilterHTML): first marker at original offset i: i>=16384 or none -> output == body; i and its Latin-1->UTF-8 transcoded offset < 16384 -> output == body[:i]+tag+body[i:]; in between either is accepted (counted 'ambiguous-window-unit'); ContentLength == len(output); Content-Encoding removed. Non-trivial = high byte before the marker, marker within 8 bytes of the window edge, or gzip; distinct by (body, gzip).",
        "technique": "property-based testing (rapid) + native fuzzing with a byte-exact reconstruction oracle",
        "level_text": "Generated and coverage-guided search for a body whose bytes are not preserved or whose tag lands elsewhere.",
        "level_note": "Trusted: the hook wrapper (fixed injection host and timestamp) and compress/gzip.",
        "assumptions": COMMON_ASSUME + ["the unit of the 16 KiB inspected prefix (original vs transcoded bytes) is not fixed by the statement; the narrow zone between is accepted either way"],
    },
}

# Additions of rounds 10 to 14 of the seeded-change campaign (see DESIGN.md section 11).
RULE_ADDENDA = {
    "C01": "Also: $match-case rules whose indexed window holds a capital, $important rules, zero-hash $domain values and sources, fragment patterns, letters that change length in lower case, deep source hosts, CRLF lists, $domain values and sources of hexadecimal digits only, a byte-order mark before a first-line rule.",
    "C02": "Also: hosts lines written at text level (several names per line, repeated names, zoned and 45-byte addresses, 280..420 aliases), regex alternations of anchored literals, client names differing in letter case only, a name of exactly 253 bytes, $badfilter twins whose $client subnet is spelled with other host bits.",
    "C03": "Also: the rule is written in option variants ($match-case,document / $document,match-case / $important) that must not change the mask semantics; addresses embedding ws://<mask> further on.",
    "C05": "Also: slash-delimited masks without regex specials, domains followed by a separator that does not end the host, bystander rules in the engine stage, expressions whose body begins or ends with a slash.",
    "C06": "Also: $stealth first in the slice, rewrite / other / rewrite orders, referrer rules in capitals, NS/SOA/CAA rewrites, the same slices evaluated twice, referrer exceptions carrying $dnsrewrite.",
    "C08": "Also: a FOREIGN rule whose text has the FastHash of the $badfilter rule (built by meet-in-the-middle at start up), twins filed under the last window of URLs that grow in lower case, a pair around the storage block size, patterns with an escaped dollar sign.",
    "C07": "Also: every document-level exception against every main-pool rule of another verdict class (class order), both directions; selection with a $urlblock and a $genericblock exception on the referrer in either order.",
    "C09": "Also: a record type numbered above 255 (URI) among the shapes.",
    "C10": "Also: record types spelled with U+017F; the accepted record type must be the one written and a real one (DNS library table); type names of 17 bytes and more; extended response codes with a record.",
    "C11": "Also: concurrent retrieval on one storage with the case recorded beforehand, so that a worker killed by the runtime (concurrent map access) is reported with its case; indented, aligned 32-byte, two-byte and >=64 KiB lines; the combined Engine built on a cold storage, string-backed against file-backed.",
    "C12": "Also: more matching $badfilter rules than other rules, $dnsrewrite values containing ';', engines over empty storage, referrers whose host ends with a dot or has empty labels, comment lines with a lone carriage return; 20 s watchdog per case (does-not-terminate).",
    "C13": "Also: results of earlier queries are re-inspected after later ones (no shared scratch state), identical queries repeated (no map-order dependence), reverse renamed-apart history, transient faults, case-sensitive expressions asked three times in a row.",
    "C14": "Also: hosts lines that repeat a name (race detector), a 1200-rule list whose retrievals exceed 1024 cache entries under 16 goroutines, opposite-order pairs, named clients.",
    "C15": "Also: rules on a domain and on its sub-domain with the host at the deeper level; exceptions listed before the generic rule they silence; colliding selectors.",
    "C16": "Also engine kinds: referrer under $urlblock with an $important block of the page; $stealth(,important) exception beside the cosmetic exception; modifiers with values among the cosmetic ones; another cosmetic exception switched off by its $badfilter twin; a $domain-restricted block for the referrer.",
    "C17": "Also: one-byte hosts, hosts under a short suffix followed by hosts under a longer rule ending in it (no state kept between calls), several requests constructed together.",
    "C18": "Also: three lists with an empty middle one, address tokens of 40..45 bytes, zoned addresses, BOM, CRLF, a long comment across the read buffer, first line asked again last, names holding the bytes 0xA0 / 0x85 inside a character.",
    "C19": "Also fault kinds: handle closed behind the list and Close called (dead-lock watchdog 30 s), Close fault followed by a never-loaded rule, a goroutine held between cache miss and read while the fault goes on.",
    "C20": "Also: the same body filtered from eight goroutines at once equals the sequential output; bodies without marker holding bytes >= 0x80; gzip members; through the real proxy for a quarter of the cases.",
}
for _k, _v in RULE_ADDENDA.items():
    PROPS[_k]["rule"] = PROPS[_k]["rule"].rstrip() + " " + _v
