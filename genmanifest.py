#!/usr/bin/env python3
"""Regenerates MANIFEST.json from propsconf.py (single source of truth for the per-property texts)."""
import json, os, sys
sys.path.insert(0, os.path.dirname(os.path.abspath(__file__)))
from propsconf import PROPS, HOOK_COMMITS, NOT_APPLICABLE

ALL = ["C%02d" % i for i in range(1, 21)]
checks = []
for pid in ALL:
    c = PROPS.get(pid)
    if c is None:
        continue
    checks.append({
        "property_id": pid,
        "quick_cmd": "./check %s quick" % pid,
        "thorough_cmd": "./check %s thorough" % pid,
        "evidence_file": "/verif/evidence/%s.json" % pid,
        "replay_cmd_template": "./check --replay {path}",
        "engine": "props",
        "level_claimed": {
            "category": c.get("level", "exploration"),
            "text": c["level_text"],
            "design_ref": "DESIGN.md section 4, " + pid,
        },
        "level_note": c["level_note"],
        "technique": c["technique"],
    })
na = [{"property_id": pid, "reason": NOT_APPLICABLE.get(pid, "check not built yet in this session (work in progress)")}
      for pid in ALL if pid not in PROPS]
m = {
    "version": 1,
    "setup_cmd": "./check --setup",
    "hooks": {
        "guard": "verif",
        "enable": "go test -tags verif (the driver ./check builds /verif/harness/props with -tags verif against /repo through a replace directive)",
        "baseline_off_cmd": "cd /repo && go test -vet=off -count=1 -timeout 25m ./...",
        "source_commits": HOOK_COMMITS,
        "add_only": True,
    },
    "engines": [{
        "name": "props", "path": "/verif/harness/props",
        "serves_properties": [c["property_id"] for c in checks],
        "kind_free_text": "Go test binary: rapid v1.3.0 property-based search (sharded by seed), exhaustive enumeration of small finite spaces, "
                          "native go fuzz targets (thorough tier), regression replays; driver /verif/check",
    }],
    "checks": checks,
    "not_applicable": na,
    "notes": "Every check decides its property by generated-input search against an explicit oracle (reference model, round trip, "
             "metamorphic relation or history invariant); see DESIGN.md. VERIF_SEED and VERIF_TIER are honoured. Exit 2 = inconclusive/infrastructure.",
}
with open(os.path.join(os.path.dirname(os.path.abspath(__file__)), "MANIFEST.json"), "w") as fh:
    json.dump(m, fh, indent=1)
    fh.write("\n")
print("MANIFEST.json: %d checks, %d not_applicable" % (len(checks), len(na)))
