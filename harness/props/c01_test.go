package props

import (
	"fmt"
	"strings"
	"testing"

	"github.com/AdguardTeam/urlfilter"
	"github.com/AdguardTeam/urlfilter/rules"
	"pgregory.net/rapid"
)

// C01 — network engine lookup is equivalent to a linear scan of all rules.

type c01Case struct {
	Lists []ListSpec `json:"lists"`
	Reqs  []Q        `json:"reqs"`
}

// patterns steering all three tables: long literal shortcuts (shortcut table,
// several windows), shared and colliding 5-byte windows, short shortcuts (with
// $domain: domain table; without: sequential table), regexes, any-URL shortcuts.
func c01Patterns() []string {
	p := []string{"||example.org^", "||google.com^", "|https://a.com/", "example", "/ads/x", "a.com|", "://1.2.", "||1.2.3.4^", "google", "ab",
		"/banner_ad", "adsa6", "adsgp", "/adsa6/adsgp", "http://", "|https://", "|http://example", "ws://", "/ex[a]mple?/", "/goog+le\\.com/",
		"||example.org/ads/*", "oogle.c", "xample.o", "example.org/ads/x.js", "/ads/", "ad", "*", "^ads^", "example.org/ads/x.js?a=b&c=d",
		"/ads?/", "/(banner|ads)/", "x.js|", "|ws://x",
		// non-ASCII shortcuts: windows of 5 bytes cut through multi-byte characters
		"||пример.рф^", "реклама", "/реклама/", "/ads/баннер", "ёж",
		// scheme-prefixed patterns: for host-name requests they are applied to the synthesised http:// URL,
		// and their first shortcut windows lie inside the scheme
		"http://example.org^", "http://example", "http://a.com", "http://sub.example.org^", "://example.org", "https://a.com/",
		// capital letters in the pattern (they matter together with $match-case)
		"/BannerAd/", "AdServer", "||Example.org/Ads",
		// patterns that reach into the fragment of a URL
		"/app#!/promo-page", "||example.org/#promo", "page.html#top", "/ads/x.js#frag"}
	for _, c := range windowColliders {
		p = append(p, c[0], c[1], "/"+c[0]+"/x", c[1]+"^")
	}
	for _, c := range seqTextColliders {
		p = append(p, c[0], c[1]) // distinct rule texts with equal FastHash, both without a long shortcut
	}
	return p
}

var c01Pats = c01Patterns()

var c01HexLikeNames = []string{"cafe.de", "bad.ee", "face.cc", "abc.de", "0.cc", "dead.beef.fe", "f00d.ac"}

func c01URLs() []string {
	u := []string{"http://example.org/ads/x.js", "https://a.com/", "http://google.com/adsa6/adsgp", "http://x.com/banner_ad", "http://x.com/q?adsgp",
		"https://www.example.org/ads/", "http://1.2.3.4/ab", "http://example.org/ads/x.js?a=b&c=d", "ws://x.com/ads", "http://x.com/ads/ads/ads/x.js",
		"http://example.org/example.org/example.org", "https://google.com", "http://a.com", "http://x.com/ad", "http://adsa6",
		"http://пример.рф/реклама", "http://x.com/ads/баннер.gif", "http://x.com/РЕКЛАМА/ёж", "http://localhost/ads/x.js",
		"http://example.org/\u023a/adsa6", "http://x.com/\u023e\u023a\u023e/q?adsgp", "http://x.com/\u212a\u212a/banner_ad", "http://Example.ORG/ads/adsa6",
		"http://x.com/ad\u017fa6/ad\u017fgp", "http://example.org/ad\u017f/x.js", "http://x.com/ad\u017f/x", "http://x.com/\u212a/ad\u017fa6", // U+017F and U+212A fold to s and k
		"http://x.com/BannerAd/img.png", "http://x.com/bannerad/", "http://AdServer.example/", "http://Example.org/Ads", "http://example.org/ads",
		"https://example.org/#promo", "http://x.com/app#!/promo-page", "http://x.com/page.html#top", "http://example.org/ads/x.js#frag", "http://x.com/q#!/promo-page/app#!/promo"}
	for _, c := range windowColliders {
		u = append(u, "http://x.com/"+c[0], "http://x.com/q/"+c[1], "http://x.com/"+c[0]+"/x/"+c[0], "http://"+c[1])
	}
	for _, c := range seqTextColliders {
		u = append(u, "http://h.com/"+strings.ReplaceAll(c[0], "^", "/"), "http://h.com/"+strings.ReplaceAll(c[1], "^", "/"))
	}
	return u
}

var c01FixedURLs = c01URLs()

func c01Table(r *rules.NetworkRule) string {
	sh := r.Shortcut
	anyURL := (len(sh) < 6 && strings.HasPrefix(sh, "ws:")) || (len(sh) < 7 && strings.HasPrefix(sh, "wss:")) ||
		(len(sh) < 8 && strings.HasPrefix(sh, "|ws")) || (len(sh) < 9 && strings.HasPrefix(sh, "http")) || (len(sh) < 10 && strings.HasPrefix(sh, "|http"))
	switch {
	case len(sh) >= 5 && !anyURL:
		return "shortcuts"
	case len(r.GetPermittedDomains()) > 0:
		return "domains"
	}
	return "seqscan"
}

func checkC01(c c01Case, rec *Rec) *Violation {
	const id = "C01"
	st, cleanup, err := buildStorage(c.Lists)
	if err != nil {
		return viol(id, "C01:harness", "storage: %v", err)
	}
	defer cleanup()
	engine := urlfilter.NewNetworkEngine(st)
	all := parseAll(c.Lists)
	tables := map[string]bool{}
	listsOf := map[string]map[int]bool{}
	wild := false
	for _, pl := range all {
		if nr, ok := pl.rule.(*rules.NetworkRule); ok {
			tables[c01Table(nr)] = true
			if listsOf[pl.text] == nil {
				listsOf[pl.text] = map[int]bool{}
			}
			listsOf[pl.text][pl.listID] = true
			for _, d := range nr.GetPermittedDomains() {
				if strings.HasSuffix(d, ".*") {
					wild = true
				}
			}
		}
	}
	for _, q := range c.Reqs {
		got := map[string]bool{}
		// compared as a SET, as the property is stated: the unchanged engine itself
		// reports a rule twice when two of its $domain values are suffixes of the
		// source host (one hit per bucket), so multiplicity is not part of the contract
		for _, r := range engine.MatchAll(mkReq(q)) {
			got[r.Text()] = true
			if !listsOf[r.Text()][r.GetFilterListID()] {
				return viol(id, "C01:wrong-list-id", "request %+v: returned rule %q carries list id %d, but no list with that id contains it", q, r.Text(), r.GetFilterListID())
			}
		}
		want := map[string]bool{}
		for _, pl := range all {
			if nr, ok := pl.rule.(*rules.NetworkRule); ok {
				// a fresh rule object and a fresh request: no index, storage or cache
				fresh, ferr := rules.NewNetworkRule(pl.text, pl.listID)
				if ferr != nil {
					continue
				}
				if fresh.Match(mkReq(q)) {
					want[nr.Text()] = true
					rec.Label("hit-in-table:" + c01Table(nr))
				}
			}
		}
		if len(want) > 0 && len(tables) >= 2 {
			rec.NonTrivial(fmt.Sprint(c.Lists)+q.key(), map[string]any{"lists": c.Lists, "request": q, "matching": sortedKeys(want)})
		}
		if !sameSet(got, want) {
			var lost, added []string
			for k := range want {
				if !got[k] {
					lost = append(lost, k)
				}
			}
			for k := range got {
				if !want[k] {
					added = append(added, k)
				}
			}
			sig := "C01:lost-matching-rule"
			if len(added) > 0 {
				sig = "C01:added-non-matching-rule"
			} else if wild {
				onlyWild := true
				for _, l := range lost {
					if !strings.Contains(l, ".*") {
						onlyWild = false
					}
				}
				if onlyWild {
					sig = "C01:lost-matching-rule:wildcard-domain"
				}
			}
			return viol(id, sig, "request %+v: MatchAll lost %q, added %q (linear scan: %q)", q, lost, added, sortedKeys(want))
		}
	}
	rec.LabelN("queries", len(c.Reqs))
	return nil
}

func genC01(t *rapid.T) c01Case {
	n := rapid.IntRange(0, 40).Draw(t, "nrules")
	var models []NetModel
	var lines []string
	for i := 0; i < n; i++ {
		m := genNetModel(t, modelOpts{patterns: c01Pats, modChance: 4})
		if chance(t, "colliding-domain", 10) {
			cp := pick(t, "dcoll", domainColliders)
			m.DPerm = append(m.DPerm, cp[rapid.IntRange(0, 1).Draw(t, "which")])
		}
		if chance(t, "important-rule", 6) && !inList("important", m.Extra) {
			m.Extra = append(m.Extra, "important") // the flag changes nothing about which requests the rule matches
		}
		if chance(t, "zero-hash-domain", 12) {
			// a $domain value whose hash is 0, the value the hash function returns for the empty string
			m.DPerm = append(m.DPerm, pick(t, "zero-hash", zeroHashNames))
		}
		if chance(t, "hex-like-domain", 12) {
			// a $domain value spelled with hexadecimal digits and dots only (it looks like an address to a character test)
			m.DPerm = append(m.DPerm, pick(t, "hex-like", c01HexLikeNames))
		}
		if wideMask(m.Pat) && !m.hasRestriction() {
			m.DPerm = []string{"example.org"}
		}
		models = append(models, m)
		lines = append(lines, renderNet(t, m))
		for _, cp := range seqTextColliders {
			// a distinct rule whose whole text has the same FastHash (same modifiers, colliding pattern)
			for k := 0; k < 2; k++ {
				if m.Pat == cp[k] && chance(t, "colliding-text-twin", 2) {
					lines = append(lines, strings.Replace(lines[len(lines)-1], cp[k], cp[1-k], 1))
					m2 := m
					m2.Pat = cp[1-k]
					models = append(models, m2)
				}
			}
		}
		if chance(t, "seq-collider", 15) {
			// bare colliding pair
			cp := pick(t, "seq-pair", seqTextColliders)
			lines = append(lines, cp[0], cp[1])
			models = append(models, NetModel{Pat: cp[0]}, NetModel{Pat: cp[1]})
		}
		if chance(t, "duplicate", 10) {
			lines = append(lines, lines[len(lines)-1])
		}
		if chance(t, "noise", 8) {
			lines = append(lines, pick(t, "noise-line", []string{"! comment", "", "# hosts comment", "##.cosmetic", "0.0.0.0 example.org", "||bad^$unknown"}))
		}
	}
	if chance(t, "giant-domain-rule", 15) {
		// one rule line of more than 4096 bytes: hundreds of $domain values, short shortcut
		var ds []string
		for i := 0; i < rapid.IntRange(260, 420).Draw(t, "ndomains"); i++ {
			ds = append(ds, fmt.Sprintf("site%04d.example", i))
		}
		pat := pick(t, "giant-pat", []string{"ab", "/x", "ad"})
		lines = append(lines, pat+"$domain="+strings.Join(ds, "|"))
		models = append(models, NetModel{Pat: pat, DPerm: []string{ds[len(ds)-1], ds[len(ds)/2], ds[0]}})
	}
	domainBlock := chance(t, "domain-bucket-block", 6)
	if domainBlock {
		// short-pattern rules in the $domain buckets of a domain and of its sub-domain, one rule in both
		for i := pick(t, "domain-bucket-size", []int{2, 4, 5, 6, 3}); i > 0; i-- {
			lines = append(lines, fmt.Sprintf("/a%d$domain=dbucket.net", i))
		}
		lines = append(lines, "/a9$domain=dbucket.net|sub.dbucket.net", "/b1$domain=sub.dbucket.net", "/b2$domain=sub.dbucket.net|a.com")
		models = append(models, NetModel{Pat: "/a9", DPerm: []string{"dbucket.net", "sub.dbucket.net"}}, NetModel{Pat: "/b1", DPerm: []string{"sub.dbucket.net"}})
	}
	mass := chance(t, "mass-block", 25)
	if mass {
		// several hundred distinct rules sharing one single-window shortcut: the histogram counter of that window grows large
		k := rapid.IntRange(250, 320).Draw(t, "mass")
		w := pick(t, "mass-window", []string{"adsa6", windowColliders[0][0]})
		for i := 0; i < k; i++ {
			lines = append(lines, fmt.Sprintf("%s^$ctag=~t%d", w, i))
		}
		models = append(models, NetModel{Pat: w + "^", GRestr: []string{"t0"}})
	}
	lines = shuffledKeepDup(t, lines)
	c := c01Case{Lists: distribute(t, lines, rapid.IntRange(1, 4).Draw(t, "nlists"))}
	if len(c.Lists) > 0 && chance(t, "bom-first-list", 8) {
		// a byte-order mark before the first line: that line is the text WITH the mark, for the index and for retrieval alike
		c.Lists[0].Text = "\ufeff" + pick(t, "bom-line", []string{"ads", "ad_", "/ad", "||example.org^", "ads$domain=example.org"}) + "\n" + c.Lists[0].Text
	}
	nq := rapid.IntRange(5, 30).Draw(t, "nreq")
	if mass && nq > 8 {
		nq = 8
	}
	for i := 0; i < nq; i++ {
		var q Q
		if len(models) > 0 {
			q = genQNear(t, models[rapid.IntRange(0, len(models)-1).Draw(t, "for-rule")])
		} else {
			q = genQ(t, nil)
		}
		if !q.Host && chance(t, "fixed-url", 3) {
			q.URL = pick(t, "fixed", c01FixedURLs)
		}
		if domainBlock && chance(t, "domain-block-query", 3) {
			q = Q{URL: pick(t, "dbu", []string{"http://x.com/a1/a2/a3/a4/a5/a6/a9/b1/b2", "http://x.com/b2/b1/a9/a1", "http://x.com/a9/b1"}),
				Src: pick(t, "dbs", []string{"http://sub.dbucket.net/", "http://dbucket.net/", "http://x.sub.dbucket.net/"}), Typ: "script"}
		}
		if !q.Host && chance(t, "deep-source-host", 12) {
			// a source host with 17 to 45 labels under a domain some rule names
			base := "example.org"
			if len(models) > 0 {
				if m := models[rapid.IntRange(0, len(models)-1).Draw(t, "deep-of")]; len(m.DPerm) > 0 && !strings.HasSuffix(m.DPerm[0], ".*") {
					base = m.DPerm[0]
				}
			}
			q.Src = "http://" + strings.Repeat("l.", rapid.IntRange(15, 43).Draw(t, "deep-labels")) + base + "/"
		}
		if chance(t, "zero-hash-src", 15) && !q.Host {
			q.Src = "http://" + pick(t, "zsub", []string{"", "www."}) + pick(t, "zero-hash-src-name", zeroHashNames) + "/"
		}
		if chance(t, "hex-like-src", 12) && !q.Host {
			q.Src = "http://" + pick(t, "hsub", []string{"", "a.", "0."}) + pick(t, "hex-like-src-name", c01HexLikeNames) + "/"
		}
		if chance(t, "colliding-src", 12) && !q.Host {
			cp := pick(t, "scoll", domainColliders)
			q.Src = "http://" + cp[rapid.IntRange(0, 1).Draw(t, "swhich")] + "/"
		}
		c.Reqs = append(c.Reqs, q)
	}
	return c
}

// shuffledKeepDup permutes a slice that may contain duplicates.
func shuffledKeepDup(t *rapid.T, xs []string) []string {
	if len(xs) < 2 {
		return xs
	}
	idx := make([]int, len(xs))
	for i := range idx {
		idx[i] = i
	}
	p := rapid.Permutation(idx).Draw(t, "insertion-order")
	out := make([]string, len(xs))
	for i, j := range p {
		out[i] = xs[j]
	}
	return out
}

func init() { register("C01", checkC01) }

func TestC01(t *testing.T) {
	runProp(t, "C01", checkC01, nil, part[c01Case]{"engines", scale(2000, 10000), genC01})
}
