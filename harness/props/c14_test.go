package props

import (
	"encoding/json"
	"fmt"
	"runtime"
	"strings"
	"sync"
	"sync/atomic"
	"testing"
	"time"

	"github.com/AdguardTeam/urlfilter"
	"github.com/AdguardTeam/urlfilter/filterlist"
	"github.com/AdguardTeam/urlfilter/rules"
	"pgregory.net/rapid"
)

// C14 — engines can be queried concurrently: race-free and sequentially consistent.

type c14Case struct {
	Lists      []ListSpec `json:"lists"`
	Queries    []Q        `json:"queries"`
	Goroutines int        `json:"goroutines"`
	YieldSeed  uint64     `json:"yield_seed"`
	Warm       bool       `json:"warm,omitempty"` // warm the cache sequentially first
}

// yield perturbation through the verif hooks: a deterministic stream derived
// from the case decides between nothing, Gosched and a short sleep.
type c14Yielder struct {
	seed     uint64
	ctr      atomic.Uint64
	inMiss   atomic.Int64
	overlap  atomic.Int64
	compiles atomic.Int64
}

func (y *c14Yielder) hook(point string) {
	switch point {
	case "storage-cache-miss":
		if y.inMiss.Add(1) >= 2 {
			y.overlap.Add(1)
		}
	case "storage-before-insert":
		defer y.inMiss.Add(-1)
	case "rule-before-compile":
		y.compiles.Add(1)
	}
	n := y.ctr.Add(1)
	x := (n*0x9E3779B97F4A7C15 ^ y.seed) * 0xBF58476D1CE4E5B9
	x ^= x >> 29
	switch x % 8 {
	case 0, 1, 2:
		runtime.Gosched()
	case 3:
		time.Sleep(time.Duration(x>>40%50) * time.Microsecond)
	}
}

var c14HookMu sync.Mutex

// c14Deadline bounds one concurrent phase.
const c14Deadline = 120 * time.Second

func setYieldHooks(h func(string)) {
	filterlist.VerifYieldHook = h
	rules.VerifYieldHook = h
	urlfilter.VerifYieldHook = h
}

func checkC14(c c14Case, rec *Rec) *Violation {
	const id = "C14"
	if c.Goroutines < 2 || len(c.Queries) == 0 {
		return nil
	}
	// a race report (or a fatal runtime error) halts the process: leave the case behind for the driver
	trackCase(id, "C14:data-race", c)
	c14HookMu.Lock()
	defer c14HookMu.Unlock()
	setYieldHooks(nil)
	// the concurrent phase runs FIRST, on rule texts this process may never have
	// seen; the sequential reference (a separate, fresh engine) is computed afterwards
	en, err := newEngSet(c.Lists)
	if err != nil {
		return viol(id, "C14:harness", "storage: %v", err)
	}
	defer en.cleanup()
	if c.Warm {
		for _, q := range c.Queries[:len(c.Queries)/2] {
			en.answer(q)
		}
	}
	y := &c14Yielder{seed: c.YieldSeed}
	setYieldHooks(y.hook)
	defer setYieldHooks(nil)
	got := make([]string, len(c.Queries))
	var wg sync.WaitGroup
	start := make(chan struct{})
	G := c.Goroutines
	panics := make([]any, G)
	for g := 0; g < G; g++ {
		wg.Add(1)
		go func(g int) {
			defer wg.Done()
			defer func() {
				if e := recover(); e != nil {
					panics[g] = e
				}
			}()
			<-start
			for i := g; i < len(c.Queries); i += G {
				got[i], _ = en.answer(c.Queries[i])
			}
		}(g)
	}
	close(start)
	finished := make(chan struct{})
	go func() { wg.Wait(); close(finished) }()
	select {
	case <-finished:
	case <-time.After(c14Deadline):
		// the whole sequential run takes milliseconds: this is a dead-lock, not slowness
		return viol(id, "C14:concurrent-queries-do-not-return", "%d goroutines running %d queries did not finish within %v (sequentially the same queries take milliseconds)", G, len(c.Queries), c14Deadline)
	}
	setYieldHooks(nil)
	for g, p := range panics {
		if p != nil {
			return viol(id, "C14:panic", "goroutine %d panicked during concurrent queries: %v", g, p)
		}
	}
	if y.overlap.Load() > 0 || y.compiles.Load() > 0 {
		rec.NonTrivial(fmt.Sprintf("%x", hash64(fmt.Sprint(c))), map[string]any{"lists": c.Lists, "queries": len(c.Queries), "goroutines": c.Goroutines,
			"overlapping_cache_misses": y.overlap.Load(), "lazy_compiles": y.compiles.Load(), "warm": c.Warm})
	}
	rec.LabelN("overlapping-cache-misses", int(y.overlap.Load()))
	rec.LabelN("queries", len(c.Queries))
	file := false
	for _, l := range c.Lists {
		file = file || l.File
	}
	if file {
		rec.Label("file-backed-case")
	}
	seq, err := newEngSet(stringBacked(c.Lists))
	if err != nil {
		return viol(id, "C14:harness", "storage: %v", err)
	}
	want := make([]string, len(c.Queries))
	for i, q := range c.Queries {
		want[i], _ = seq.answer(q)
	}
	seq.cleanup()
	for i := range c.Queries {
		if got[i] != want[i] {
			return viol(id, "C14:concurrent-answer-differs", "query %d %+v with %d goroutines (cold cache=%v):\n concurrent %s\n sequential %s", i, c.Queries[i], G, !c.Warm, clipStr(got[i]), clipStr(want[i]))
		}
	}
	return nil
}

func mustJSON(v any) json.RawMessage {
	b, _ := json.Marshal(v)
	return b
}

func stringBacked(lists []ListSpec) []ListSpec {
	out := make([]ListSpec, len(lists))
	copy(out, lists)
	for i := range out {
		out[i].File = false
	}
	return out
}

func genC14(t *rapid.T) c14Case {
	lists, models := genMixedLists(t, 2)
	c := c14Case{Lists: lists, Goroutines: rapid.IntRange(2, 32).Draw(t, "goroutines"),
		YieldSeed: rapid.Uint64().Draw(t, "yield-seed"), Warm: chance(t, "warm", 4)}
	// URLs for the regex rules with fresh texts
	var freshURLs []string
	for _, l := range lists {
		for _, ln := range strings.Split(l.Text, "\n") {
			ln = strings.TrimRight(ln, "\r")
			if strings.HasPrefix(ln, "/uniq") && strings.HasSuffix(ln, "[0-9]/") {
				freshURLs = append(freshURLs, "http://x.com/"+strings.TrimSuffix(strings.TrimPrefix(ln, "/"), "[0-9]/")+"7")
			}
		}
	}
	hasPages := false
	for _, l := range lists {
		if strings.Contains(l.Text, "@@||page.example/checkout^$urlblock") {
			hasPages = true
		}
	}
	if hasPages && chance(t, "many-referrer-pages", 2) {
		// many requests in flight that differ in the page of the referrer only (a document-level exception covers one page)
		for i := rapid.IntRange(40, 120).Draw(t, "npage-queries"); i > 0; i-- {
			c.Queries = append(c.Queries, Q{URL: "http://ads.example/x.js", Src: "http://page.example/" + pick(t, "page", []string{"checkout", "other", "cart", "checkout", "other"}), Typ: "script"})
		}
	}
	for _, l := range lists {
		if strings.Contains(l.Text, "/banner_ad") && strings.Contains(l.Text, "adsgp") && chance(t, "opposite-order-pairs", 3) {
			// two rules of equal priority that both match two URLs, which present them in opposite orders
			for i := rapid.IntRange(40, 120).Draw(t, "nopposite"); i > 0; i-- {
				c.Queries = append(c.Queries, Q{URL: pick(t, "opp", []string{"http://x.com/adsgp/banner_ad", "http://x.com/banner_ad/adsgp"}), Typ: "script"})
			}
			break
		}
	}
	hasClients := false
	for _, l := range lists {
		if strings.Contains(l.Text, "||clients.example^$client=") {
			hasClients = true
		}
	}
	if hasClients && chance(t, "named-clients-first", 2) {
		// the very first lookups of the rule with many client names happen at the same time
		var first []Q
		for i := rapid.IntRange(16, 64).Draw(t, "nnamed-first"); i > 0; i-- {
			first = append(first, Q{Host: true, Hostname: "clients.example", CName: fmt.Sprintf("dev%02d", rapid.IntRange(0, 45).Draw(t, "devno")), CIP: "10.0.0.7"})
		}
		c.Queries = append(first, c.Queries...)
	}
	for _, l := range lists {
		if strings.Contains(l.Text, "twice.example twice.example") && chance(t, "repeated-host-first", 2) {
			// the very first lookups of a hosts bucket that lists one line twice happen at the same time
			var first []Q
			for i := rapid.IntRange(16, 48).Draw(t, "ntwice"); i > 0; i-- {
				first = append(first, Q{Host: true, Hostname: pick(t, "twice", []string{"twice.example", "twice.example", "other.twice.example"})})
			}
			c.Queries = append(first, c.Queries...)
			break
		}
	}
	n := len(c.Queries) + rapid.IntRange(50, scale(200, 400)).Draw(t, "nqueries")
	if rare(t, "more-rules-than-a-small-cache-holds", 8) {
		// more than a thousand rules, each behind its own window, and for each of them a URL that contains the
		// window twice: every query loads one rule, the whole run far more than a thousand
		var sb strings.Builder
		for i := 0; i < 1200; i++ {
			fmt.Fprintf(&sb, "m%04dq^\n", i)
		}
		c.Lists = append(c.Lists, ListSpec{ID: 515151, Text: sb.String(), File: chance(t, "mass-file", 2)})
		start := rapid.IntRange(0, 1199).Draw(t, "mass-start")
		for i := 0; i < 1200; i++ {
			k := (start + i*7) % 1200
			c.Queries = append(c.Queries, Q{URL: fmt.Sprintf("http://x.com/m%04dq/m%04dq", k, k), Typ: "script"})
		}
		n = len(c.Queries) + 10
	}
	for len(c.Queries) < n {
		if len(c.Queries) > 0 && chance(t, "dup", 2) {
			c.Queries = append(c.Queries, c.Queries[rapid.IntRange(0, len(c.Queries)-1).Draw(t, "dup-of")])
			continue
		}
		if chance(t, "block-queries", 6) {
			c.Queries = append(c.Queries, genBlockQueries(t)...)
			continue
		}
		q := genQNear(t, models[rapid.IntRange(0, len(models)-1).Draw(t, "for")])
		if len(freshURLs) > 0 && chance(t, "fresh-regex-url", 4) {
			q = Q{URL: pick(t, "fresh-url", freshURLs), Typ: "script"}
		} else if chance(t, "fixed", 2) {
			if q.Host {
				q.Hostname = pick(t, "fh", []string{"example.org", "a.com", hostColliders[0][0]})
			} else {
				// URLs in which a rule's window occurs several times
				q.URL = pick(t, "fu", append([]string{"http://x.com/adsa6/adsgp", "http://x.com/adsa6/banner_ad", "http://x.com/adsa6?adsgp=/banner_ad",
					"http://x.com/adsgp/banner_ad", "http://x.com/banner_ad/adsgp", "http://x.com/bannerx1", "http://x.com/adsgpq2", "http://x.com/trackerzz", "http://x.com/pixelwab", "http://x.com/counterv77"}, c01FixedURLs...))
			}
		}
		c.Queries = append(c.Queries, q)
	}
	return c
}

func init() { register("C14", checkC14) }

func TestC14(t *testing.T) {
	runProp(t, "C14", checkC14, nil, part[c14Case]{"concurrent-queries", scale(50, 200), genC14})
}
