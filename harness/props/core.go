// Package props holds the executable form of the 20 properties of
// /verif/properties.jsonl: for each one a JSON-serialisable Case, a rapid
// generator, and a checkCase oracle.  See /verif/DESIGN.md.
package props

import (
	"bufio"
	"encoding/binary"
	"encoding/json"
	"flag"
	"fmt"
	"hash/fnv"
	"os"
	"path/filepath"
	"sort"
	"strconv"
	"strings"
	"sync"
	"testing"
	"time"

	"pgregory.net/rapid"
)

// Violation is what a checkCase oracle returns when the property is broken.
type Violation struct {
	Property  string `json:"property"`
	Signature string `json:"signature"`
	Detail    string `json:"detail"`
}

func viol(prop, sig, format string, args ...any) *Violation {
	return &Violation{Property: prop, Signature: sig, Detail: fmt.Sprintf(format, args...)}
}

// Rec accumulates what a run covered.  It is safe for concurrent use.
type Rec struct {
	mu          sync.Mutex
	id          string
	Evaluations int64
	nontriv     map[uint64]struct{}
	Labels      map[string]int64
	// bottom-k sample: the k non-trivial cases with the smallest hash.  It is
	// deterministic and mergeable over shards.
	samples map[uint64]json.RawMessage
	first   []json.RawMessage
	known   map[string]*knownHit
	// harnessProblems: set-up failures of the harness itself (exit 2, never a violation)
	harnessProblems []string
}

type knownHit struct {
	What  string `json:"what"`
	Count int64  `json:"count"`
}

const sampleK = 4

func newRec(id string) *Rec {
	return &Rec{id: id, nontriv: map[uint64]struct{}{}, Labels: map[string]int64{},
		samples: map[uint64]json.RawMessage{}, known: map[string]*knownHit{}}
}

func hash64(s string) uint64 {
	h := fnv.New64a()
	_, _ = h.Write([]byte(s))
	return h.Sum64()
}

// Eval counts one evaluated case.
func (r *Rec) Eval() { r.EvalN(1) }

// EvalN counts n evaluated cases.
func (r *Rec) EvalN(n int) {
	r.mu.Lock()
	r.Evaluations += int64(n)
	r.mu.Unlock()
}

// Label increments a histogram bucket describing the generator distribution.
func (r *Rec) Label(name string) { r.LabelN(name, 1) }

// LabelN adds n to a histogram bucket.
func (r *Rec) LabelN(name string, n int) {
	r.mu.Lock()
	r.Labels[name] += int64(n)
	r.mu.Unlock()
}

// NonTrivial records a case that is non-trivial by the property's stated rule.
// key identifies the case for distinctness; sample is written to the evidence
// when the case is among the retained ones.
func (r *Rec) NonTrivial(key string, sample any) {
	h := hash64(key)
	r.mu.Lock()
	defer r.mu.Unlock()
	if _, ok := r.nontriv[h]; ok {
		return
	}
	r.nontriv[h] = struct{}{}
	keep := len(r.first) < 2
	if !keep {
		if len(r.samples) < sampleK {
			keep = true
		} else {
			for k := range r.samples {
				if h < k {
					keep = true
					break
				}
			}
		}
	}
	if !keep {
		return
	}
	b, err := json.Marshal(sample)
	if err != nil {
		return
	}
	if len(b) > 6000 {
		b, _ = json.Marshal(string(b[:6000]) + "…(truncated)")
	}
	if len(r.first) < 2 {
		r.first = append(r.first, b)
		return
	}
	r.samples[h] = b
	if len(r.samples) > sampleK {
		var mx uint64
		for k := range r.samples {
			if k > mx {
				mx = k
			}
		}
		delete(r.samples, mx)
	}
}

// ---------------------------------------------------------------------------
// known findings

type knownFinding struct {
	property, signature, what string
}

var (
	knownOnce sync.Once
	knownList []knownFinding
)

func verifDir() string {
	if d := os.Getenv("VERIF_DIR"); d != "" {
		return d
	}
	return "/verif"
}

func loadKnown() {
	knownOnce.Do(func() {
		f, err := os.Open(filepath.Join(verifDir(), "known_findings.txt"))
		if err != nil {
			return
		}
		defer f.Close()
		sc := bufio.NewScanner(f)
		for sc.Scan() {
			line := strings.TrimSpace(sc.Text())
			if !strings.HasPrefix(line, "finding:") {
				continue
			}
			fields := strings.Fields(strings.TrimPrefix(line, "finding:"))
			var kf knownFinding
			var rest []string
			for _, fl := range fields {
				switch {
				case strings.HasPrefix(fl, "property=") && kf.property == "":
					kf.property = strings.TrimPrefix(fl, "property=")
				case strings.HasPrefix(fl, "signature=") && kf.signature == "":
					kf.signature = strings.TrimPrefix(fl, "signature=")
				default:
					rest = append(rest, fl)
				}
			}
			kf.what = strings.Join(rest, " ")
			if kf.property != "" && kf.signature != "" {
				knownList = append(knownList, kf)
			}
		}
	})
}

func isKnown(v *Violation) (what string, ok bool) {
	loadKnown()
	for _, k := range knownList {
		if k.property == v.Property && k.signature == v.Signature {
			return k.what, true
		}
	}
	return "", false
}

// filter turns a violation that is a listed known finding into nil, counting
// it, so that the search continues behind it.
func (r *Rec) filter(v *Violation) *Violation {
	if v == nil {
		return nil
	}
	if strings.HasSuffix(v.Signature, ":harness") {
		// the harness could not set the case up (temp file, storage): not a
		// verdict about the code under test; the run ends as inconclusive
		r.mu.Lock()
		r.harnessProblems = append(r.harnessProblems, v.Detail)
		r.mu.Unlock()
		return nil
	}
	if what, ok := isKnown(v); ok {
		r.mu.Lock()
		k := r.known[v.Signature]
		if k == nil {
			k = &knownHit{What: what}
			r.known[v.Signature] = k
		}
		k.Count++
		r.mu.Unlock()
		return nil
	}
	return v
}

// ---------------------------------------------------------------------------
// registry, runner, replay

type propDef struct {
	id     string
	replay func(raw json.RawMessage, rec *Rec) (*Violation, error)
}

var registry = map[string]*propDef{}

// register makes a property replayable from a JSON case file.
func register[C any](id string, check func(C, *Rec) *Violation) {
	registry[id] = &propDef{id: id, replay: func(raw json.RawMessage, rec *Rec) (*Violation, error) {
		var c C
		if err := json.Unmarshal(raw, &c); err != nil {
			return nil, err
		}
		return safeCheck(id, check, c, rec), nil
	}}
}

// safeCheck runs check and turns a panic escaping the code under test into a
// violation ("never crashes" is part of several properties; for the others a
// crash is a violation of the statement all the same).
func safeCheck[C any](id string, check func(C, *Rec) *Violation, c C, rec *Rec) (v *Violation) {
	defer func() {
		if e := recover(); e != nil {
			msg := fmt.Sprint(e)
			v = viol(id, id+":panic:"+panicSig(msg), "panic: %s", msg)
		}
	}()
	return check(c, rec)
}

func panicSig(msg string) string {
	// strip numbers so that the signature names the kind of crash
	var sb strings.Builder
	for _, r := range msg {
		switch {
		case r >= '0' && r <= '9':
			sb.WriteByte('N')
		case r == ' ':
			sb.WriteByte('_')
		default:
			sb.WriteRune(r)
		}
		if sb.Len() > 60 {
			break
		}
	}
	return sb.String()
}

type replayFile struct {
	Property  string          `json:"property"`
	Signature string          `json:"signature,omitempty"`
	Detail    string          `json:"detail,omitempty"`
	Note      string          `json:"note,omitempty"`
	Case      json.RawMessage `json:"case"`
}

type runOut struct {
	Property    string               `json:"property"`
	Evaluations int64                `json:"evaluations"`
	Labels      map[string]int64     `json:"labels"`
	Samples     []json.RawMessage    `json:"samples"`
	First       []json.RawMessage    `json:"first"`
	SampleKeys  []string             `json:"sample_keys"`
	Known       map[string]*knownHit `json:"known"`
	Violation   *replayFile          `json:"violation,omitempty"`
	Replayed    int                  `json:"replayed"`
	WallS       float64              `json:"wall_s"`
	Exhaustive  bool                 `json:"exhaustive"`
	Extra       map[string]any       `json:"extra,omitempty"`
}

func envInt(name string, def int) int {
	if s := os.Getenv(name); s != "" {
		if n, err := strconv.Atoi(s); err == nil {
			return n
		}
	}
	return def
}

func tier() string {
	if os.Getenv("VERIF_TIER") == "thorough" {
		return "thorough"
	}
	return "quick"
}

// scale returns q in the quick tier and th in the thorough tier, both
// multiplied by VERIF_SCALE percent (default 100).
func scale(q, th int) int {
	n := q
	if tier() == "thorough" {
		n = th
	}
	n = n * envInt("VERIF_SCALE", 100) / 100
	if n < 1 {
		n = 1
	}
	return n
}

func shard() int  { return envInt("VERIF_SHARD", 0) }
func shards() int { return envInt("VERIF_SHARDS", 1) }

// writeOut stores the shard result for the driver.
func (r *Rec) writeOut(start time.Time, v *replayFile, replayed int, exhaustive bool, extra map[string]any) {
	dir := os.Getenv("VERIF_OUT")
	if dir == "" {
		return
	}
	_ = os.MkdirAll(dir, 0o755)
	r.mu.Lock()
	defer r.mu.Unlock()
	out := runOut{Property: r.id, Evaluations: r.Evaluations, Labels: r.Labels, Known: r.known,
		Violation: v, Replayed: replayed, WallS: time.Since(start).Seconds(), Exhaustive: exhaustive,
		First: r.first, Extra: extra}
	keys := make([]uint64, 0, len(r.samples))
	for k := range r.samples {
		keys = append(keys, k)
	}
	sort.Slice(keys, func(i, j int) bool { return keys[i] < keys[j] })
	for _, k := range keys {
		out.Samples = append(out.Samples, r.samples[k])
		out.SampleKeys = append(out.SampleKeys, strconv.FormatUint(k, 10))
	}
	b, _ := json.Marshal(out)
	_ = os.WriteFile(filepath.Join(dir, "result.json"), b, 0o644)
	// hashes of the distinct non-trivial cases, 8 bytes each, for the union
	hs := make([]byte, 0, 8*len(r.nontriv))
	for h := range r.nontriv {
		hs = binary.LittleEndian.AppendUint64(hs, h)
	}
	_ = os.WriteFile(filepath.Join(dir, "hashes.bin"), hs, 0o644)
}

// replayAll re-runs every stored regression case of the property.  It bypasses
// rapid entirely.
func replayAll(t *testing.T, id string, rec *Rec) (*replayFile, int) {
	files, _ := filepath.Glob(filepath.Join(verifDir(), "replays", id+"-*.json"))
	sort.Strings(files)
	n := 0
	for _, f := range files {
		b, err := os.ReadFile(f)
		if err != nil {
			continue
		}
		var rf replayFile
		if err = json.Unmarshal(b, &rf); err != nil || rf.Property != id {
			t.Logf("skipping unreadable replay file %s: %v", f, err)
			continue
		}
		v, err := registry[id].replay(rf.Case, rec)
		if err != nil {
			t.Logf("replay file %s does not decode: %v", f, err)
			continue
		}
		n++
		if v = rec.filter(v); v != nil {
			return &replayFile{Property: id, Signature: v.Signature, Detail: v.Detail,
				Note: "regression case " + filepath.Base(f), Case: rf.Case}, n
		}
	}
	return nil, n
}

// part is one generated-search stage of a property.
type part[C any] struct {
	name   string
	checks int
	gen    func(*rapid.T) C
}

// runProp is the common runner: regression replays, then rapid search over
// every part, evidence output.  check must be a pure function of the case.
func runProp[C any](t *testing.T, id string, check func(C, *Rec) *Violation, exhaustive func(rec *Rec) *replayFile, parts ...part[C]) {
	start := time.Now()
	rec := newRec(id)
	if registry[id] == nil {
		register(id, check)
	}
	var found *replayFile
	replayed := 0
	exh := false
	defer func() {
		rec.writeOut(start, found, replayed, exh, nil)
		if found != nil {
			t.Errorf("VIOLATION %s signature=%s: %s", id, found.Signature, found.Detail)
		} else if len(rec.harnessProblems) > 0 {
			t.Errorf("HARNESS PROBLEM in %s (%d cases could not be set up), first: %s", id, len(rec.harnessProblems), rec.harnessProblems[0])
		}
	}()

	if found, replayed = replayAll(t, id, rec); found != nil {
		return
	}
	if exhaustive != nil {
		// the function partitions its space over the shards itself (or runs
		// on shard 0 only)
		if found = exhaustive(rec); found != nil {
			return
		}
		exh = true
	}
	for _, p := range parts {
		if p.checks <= 0 {
			continue
		}
		var last *replayFile
		_ = flag.Set("rapid.checks", strconv.Itoa(p.checks))
		_ = flag.Set("rapid.nofailfile", "true")
		_ = os.RemoveAll(filepath.Join("testdata", "rapid"))
		ok := t.Run(p.name, func(t *testing.T) {
			rapid.Check(t, func(rt *rapid.T) {
				c := p.gen(rt)
				rec.Eval()
				v := rec.filter(safeCheck(id, check, c, rec))
				if v != nil {
					raw, _ := json.Marshal(c)
					last = &replayFile{Property: id, Signature: v.Signature, Detail: v.Detail, Case: raw}
					rt.Fatalf("%s: %s", v.Signature, v.Detail)
				}
			})
		})
		if !ok {
			if last == nil {
				// a generator or harness problem, not a verdict about the code
				// under test: the process exits non-zero without a violation
				// record, which the driver reports as inconclusive (exit 2)
				t.Errorf("HARNESS PROBLEM in %s/%s: rapid failed without a recorded case", id, p.name)
				return
			}
			found = last
			return
		}
	}
}

// exhaustiveFail is a helper for exhaustive enumerations: it builds the replay
// record for a failing case.
func exhaustiveFail[C any](id string, c C, v *Violation) *replayFile {
	raw, _ := json.Marshal(c)
	return &replayFile{Property: id, Signature: v.Signature, Detail: v.Detail, Case: raw}
}

// TestReplay re-runs one replay file (VERIF_REPLAY) and reports through
// VERIF_OUT like a normal run.
func replayOne(t *testing.T) {
	path := os.Getenv("VERIF_REPLAY")
	b, err := os.ReadFile(path)
	if err != nil {
		t.Fatalf("cannot read %s: %v", path, err)
	}
	var rf replayFile
	if err = json.Unmarshal(b, &rf); err != nil {
		t.Fatalf("cannot decode %s: %v", path, err)
	}
	def := registry[rf.Property]
	if def == nil {
		t.Fatalf("unknown property %q", rf.Property)
	}
	start := time.Now()
	rec := newRec(rf.Property)
	reps := envInt("VERIF_REPLAY_REPEAT", 1)
	var found *replayFile
	for i := 0; i < reps && found == nil; i++ {
		rec.Eval()
		v, err := def.replay(rf.Case, rec)
		if err != nil {
			t.Fatalf("case does not decode: %v", err)
		}
		if v = rec.filter(v); v != nil {
			found = &replayFile{Property: rf.Property, Signature: v.Signature, Detail: v.Detail, Case: rf.Case}
		}
	}
	rec.writeOut(start, found, 1, false, nil)
	if found != nil {
		t.Errorf("VIOLATION %s signature=%s: %s", rf.Property, found.Signature, found.Detail)
	}
}

// fuzzCheck runs one case inside a native fuzz target: on a violation that is
// not a known finding the structured case is written where the driver finds
// it, and the target fails (so go saves the crasher too).
func fuzzCheck[C any](t *testing.T, id string, check func(C, *Rec) *Violation, c C) {
	rec := fuzzRec(id)
	v := rec.filter(safeCheck(id, check, c, rec))
	if v == nil {
		return
	}
	raw, _ := json.Marshal(c)
	rf := replayFile{Property: id, Signature: v.Signature, Detail: v.Detail, Case: raw}
	if dir := os.Getenv("VERIF_FUZZ_OUT"); dir != "" {
		b, _ := json.MarshalIndent(rf, "", " ")
		_ = os.WriteFile(filepath.Join(dir, fmt.Sprintf("fuzz-violation-%016x.json", hash64(string(raw)))), b, 0o644)
	}
	t.Fatalf("VIOLATION %s signature=%s: %s", id, v.Signature, v.Detail)
}

var (
	fuzzRecMu sync.Mutex
	fuzzRecs  = map[string]*Rec{}
)

func fuzzRec(id string) *Rec {
	fuzzRecMu.Lock()
	defer fuzzRecMu.Unlock()
	r := fuzzRecs[id]
	if r == nil {
		r = newRec(id)
		fuzzRecs[id] = r
	}
	if len(r.nontriv) > 200000 {
		r.nontriv = map[uint64]struct{}{}
	}
	return r
}

// FuzzNone exists so that the setup command can warm the instrumented build.
func fuzzNone(f *testing.F) {
	f.Add("x")
	f.Fuzz(func(t *testing.T, s string) {})
}

// trackCase leaves the case being checked behind for the driver: a race report
// or a fatal error of the Go runtime kills the process before any result can be
// written.
func trackCase(id, sig string, c any) {
	if dir := os.Getenv("VERIF_OUT"); dir != "" && os.Getenv("VERIF_TRACK_CASE") != "" {
		cj, _ := json.Marshal(c)
		raw, _ := json.Marshal(replayFile{Property: id, Signature: sig, Case: cj})
		_ = os.WriteFile(filepath.Join(dir, "current-case.json"), raw, 0o644)
	}
}
