package props

import (
	"fmt"
	"reflect"
	"strings"
	"testing"

	"github.com/AdguardTeam/urlfilter"
	"github.com/AdguardTeam/urlfilter/filterlist"
	"github.com/AdguardTeam/urlfilter/rules"
	"pgregory.net/rapid"
)

// C09 — effective DNS rewrites apply every matching exception, in any order.

var c09ShapesFull = []string{"1.1.1.1", "2.2.2.2", "::1", "a.example", "b.example", "NOERROR;CNAME;a.example", "NOERROR;CNAME;c.example", "FORMERR;;", "NOTIMP;;", "YXDOMAIN;;", "NXDOMAIN", "REFUSED", "NOERROR", "NOERROR;;", "NOERROR;NS;x", "NOERROR;URI;x",
	"NOERROR;TXT;hello", "NOERROR;MX;10 m.x", "NOERROR;SRV;1 2 3 s.x", "NOERROR;HTTPS;1 h.x alpn=h2", "",
	// near misses of the structured values: one field differs
	"NOERROR;HTTPS;1 h.x alpn=h3", "NOERROR;HTTPS;1 h.x", "NOERROR;SVCB;1 h.x alpn=h2", "NOERROR;MX;20 m.x", "NOERROR;MX;10 n.x", "NOERROR;SRV;1 2 4 s.x", "NOERROR;TXT;Hello", "NOERROR;PTR;p.x",
	// the same values in another spelling: equal content
	"NOERROR;MX;010 m.x", "NOERROR;SRV;01 02 3 s.x", "NOERROR;HTTPS;1 h.x alpn=h2 port=8443", "NOERROR;HTTPS;1 h.x port=8443 alpn=h2", "NOERROR;HTTPS;01 h.x alpn=h2",
	// parameters that differ in a key with an empty value only
	"NOERROR;HTTPS;1 h.x alpn=h2 ech=", "NOERROR;HTTPS;1 h.x alpn=h2 no-default-alpn=", "NOERROR;HTTPS;1 h.x alpn=h2 ipv4hint="}
var c09ShapesReduced = []string{"1.1.1.1", "2.2.2.2", "a.example", "NOERROR;CNAME;a.example", "NXDOMAIN", "NOERROR", "NOERROR;MX;10 m.x", ""}

func c09Alphabet(shapes []string) []string {
	var alpha []string
	for _, s := range shapes {
		for _, imp := range []string{"", ",important"} {
			for _, exc := range []string{"", "@@"} {
				if s == "" && exc == "" {
					continue // a non-exception rewrite needs a value
				}
				alpha = append(alpha, exc+"||x.com^$dnsrewrite="+s+imp)
			}
		}
	}
	// plain (non-rewrite) rules for the same host: they are not rewrites and must not disturb them
	alpha = append(alpha, "||x.com^", "@@||x.com^$important")
	return alpha
}

type c09Case struct {
	Seq       []string `json:"seq"`
	ViaEngine bool     `json:"via_engine,omitempty"`
}

// c09Disables: does exception e disable rewrite r (statement of C09).
func c09Disables(r, e *rules.NetworkRule) bool {
	rimp := r.IsOptionEnabled(rules.OptionImportant)
	eimp := e.IsOptionEnabled(rules.OptionImportant)
	if rimp && !eimp {
		return false
	}
	n, x := r.DNSRewrite, e.DNSRewrite
	if x.NewCNAME == "" && x.RCode == 0 && x.RRType == 0 && x.Value == nil {
		return true // empty value: everything (subject to importance above)
	}
	if x.NewCNAME != "" {
		return n.NewCNAME == x.NewCNAME
	}
	if n.RCode != x.RCode {
		return false
	}
	if x.RCode != 0 {
		return true
	}
	return n.RRType == x.RRType && reflect.DeepEqual(n.Value, x.Value)
}

func checkC09(c c09Case, rec *Rec) *Violation {
	const id = "C09"
	var res *urlfilter.DNSResult
	if c.ViaEngine {
		l := &filterlist.StringRuleList{ID: 1, RulesText: strings.Join(c.Seq, "\n") + "\n"}
		st, err := filterlist.NewRuleStorage([]filterlist.RuleList{l})
		if err != nil {
			return viol(id, "C09:harness", "storage: %v", err)
		}
		res, _ = urlfilter.NewDNSEngine(st).Match("x.com")
		if len(res.NetworkRules) != len(c.Seq) {
			return viol(id, "C09:engine-lost-rule", "engine returned %d network rules for %d rewrite lines %q", len(res.NetworkRules), len(c.Seq), c.Seq)
		}
	} else {
		res = &urlfilter.DNSResult{}
		for _, s := range c.Seq {
			r, err := rules.NewNetworkRule(s, 1)
			if err != nil {
				return viol(id, "C09:parse", "rule %q rejected: %v", s, err)
			}
			res.NetworkRules = append(res.NetworkRules, r)
		}
	}
	before := netTexts(res.NetworkRules)
	all := res.DNSRewritesAll()
	allTexts := netTexts(all)
	for _, r := range all {
		if r.DNSRewrite == nil {
			return viol(id, "C09:non-rewrite-in-rewrites", "DNSRewritesAll() returned %q, which is not a $dnsrewrite rule (sequence %q)", r.Text(), c.Seq)
		}
	}
	var want []string
	nExc, structured := 0, false
	for _, r := range all {
		if r.Whitelist {
			nExc++
			switch r.DNSRewrite.Value.(type) {
			case *rules.DNSMX, *rules.DNSSRV, *rules.DNSSVCB:
				structured = true
			}
			continue
		}
		dis := false
		for _, e := range all {
			if e.Whitelist && c09Disables(r, e) {
				dis = true
				break
			}
		}
		if !dis {
			want = append(want, r.Text())
		}
	}
	if nExc >= 2 || structured {
		rec.NonTrivial(fmt.Sprint(c.ViaEngine)+"|"+strings.Join(c.Seq, "\n"), c)
	}
	gotRules := res.DNSRewrites()
	got := netTexts(gotRules)
	for _, g := range gotRules {
		if g.Whitelist {
			return viol(id, "C09:exception-returned", "DNSRewrites() returned the exception rule %q for %q", g.Text(), c.Seq)
		}
	}
	if strings.Join(got, "\n") != strings.Join(want, "\n") {
		sig := "C09:effective-rewrites-differ"
		if structured {
			sig = "C09:effective-rewrites-differ-structured"
		}
		return viol(id, sig, "sequence %q: DNSRewrites()=%q, reference=%q", c.Seq, got, want)
	}
	// the call must not disturb the result object (feeds C13)
	if after := netTexts(res.DNSRewritesAll()); strings.Join(after, "\n") != strings.Join(allTexts, "\n") {
		return viol(id, "C09:result-mutated", "DNSRewritesAll() changed after DNSRewrites(): %q -> %q", allTexts, after)
	}
	if after := netTexts(res.NetworkRules); strings.Join(after, "\n") != strings.Join(before, "\n") {
		return viol(id, "C09:result-mutated", "NetworkRules of the result changed after the rewrite getters: %q -> %q", before, after)
	}
	if again := netTexts(res.DNSRewrites()); strings.Join(again, "\n") != strings.Join(got, "\n") {
		return viol(id, "C09:not-idempotent", "second DNSRewrites() call differs: %q then %q", got, again)
	}
	return nil
}

func init() { register("C09", checkC09) }

func TestC09(t *testing.T) {
	reduced := c09Alphabet(c09ShapesReduced)
	full := c09Alphabet(c09ShapesFull)
	exhaustive := func(rec *Rec) *replayFile {
		var failed *replayFile
		var walk func(alpha []string, seq []string, maxLen int, engineMax int) bool
		walk = func(alpha []string, seq []string, maxLen, engineMax int) bool {
			for _, via := range []bool{false, true} {
				if via && len(seq) > engineMax {
					continue
				}
				c := c09Case{Seq: append([]string{}, seq...), ViaEngine: via}
				rec.Eval()
				if v := rec.filter(safeCheck("C09", checkC09, c, rec)); v != nil {
					failed = exhaustiveFail("C09", c, v)
					return false
				}
			}
			if len(seq) == maxLen {
				return true
			}
			for i, a := range alpha {
				if len(seq) == 0 && i%shards() != shard() {
					continue // first symbol partitions the space over the shards
				}
				if !walk(alpha, append(seq[:len(seq):len(seq)], a), maxLen, engineMax) {
					return false
				}
			}
			return true
		}
		redLen, fullLen, engLen := 4, 2, 3
		if tier() == "thorough" {
			redLen, fullLen, engLen = 5, 3, 3
		}
		if !walk(reduced, nil, redLen, engLen) {
			return failed
		}
		if !walk(full, nil, fullLen, 2) {
			return failed
		}
		rec.Label(fmt.Sprintf("exhaustive_reduced_alphabet_%d_len_le_%d", len(reduced), redLen))
		rec.Label(fmt.Sprintf("exhaustive_full_alphabet_%d_len_le_%d", len(full), fullLen))
		return nil
	}
	gen := func(t *rapid.T) c09Case {
		n := rapid.IntRange(4, 12).Draw(t, "n")
		// longer sequences concentrate on a few shapes so that exceptions meet their targets
		shapes := subsetOf(t, "shapes", c09ShapesFull, 4)
		alpha := c09Alphabet(shapes)
		var seq []string
		for i := 0; i < n; i++ {
			seq = append(seq, pick(t, "sym", alpha))
		}
		return c09Case{Seq: seq, ViaEngine: chance(t, "engine", 3)}
	}
	genVeryLong := func(t *rapid.T) c09Case {
		n := rapid.IntRange(70, 170).Draw(t, "n")
		alpha := c09Alphabet(subsetOf(t, "shapes", c09ShapesFull, 5))
		var rewritesOnly []string
		for _, a := range alpha {
			if !strings.HasPrefix(a, "@@") {
				rewritesOnly = append(rewritesOnly, a)
			}
		}
		var seq []string
		for i := 0; i < n; i++ {
			if len(rewritesOnly) > 0 && !chance(t, "exception", 6) {
				seq = append(seq, pick(t, "rewrite", rewritesOnly)) // mostly rewrites: far more than 64 of them
			} else {
				seq = append(seq, pick(t, "sym", alpha))
			}
		}
		return c09Case{Seq: seq}
	}
	runProp(t, "C09", checkC09, exhaustive, part[c09Case]{"long-sequences", scale(6000, 20000), gen},
		part[c09Case]{"very-long-sequences", scale(150, 1500), genVeryLong})
}
