package props

import (
	"net/netip"
	"reflect"
	"sort"
	"strings"
	"testing"

	"github.com/AdguardTeam/urlfilter/rules"
	"github.com/miekg/dns"
	"pgregory.net/rapid"
)

// C10 — parsed $dnsrewrite values always have the published shape.

type c10Case struct {
	Value string `json:"value"`
}

// c10Shape is the published contract of rules.DNSRewrite / rules.RRValue.
func c10Shape(d *rules.DNSRewrite) string {
	if d.NewCNAME != "" {
		if d.Value != nil || d.RCode != 0 || d.RRType != 0 {
			return "new-cname-with-other-fields"
		}
		if !c10ValidName(d.NewCNAME, false) {
			return "new-cname-not-a-host-name"
		}
		return ""
	}
	if d.RRType != 0 && d.RCode != dns.RcodeSuccess {
		return "record-type-with-error-rcode"
	}
	switch d.RRType {
	case dns.TypeA:
		if a, ok := d.Value.(netip.Addr); !ok || !a.Is4() {
			return "A-value-not-ipv4-addr"
		}
	case dns.TypeAAAA:
		if a, ok := d.Value.(netip.Addr); !ok || !a.Is6() {
			return "AAAA-value-not-ipv6-addr"
		}
	case dns.TypeMX:
		if v, ok := d.Value.(*rules.DNSMX); !ok || v == nil {
			return "MX-value-not-*DNSMX"
		} else if !c10ValidName(v.Exchange, false) {
			return "MX-exchange-not-a-host-name"
		}
	case dns.TypeSRV:
		if v, ok := d.Value.(*rules.DNSSRV); !ok || v == nil {
			return "SRV-value-not-*DNSSRV"
		} else if v.Target != "." && !c10ValidName(v.Target, false) {
			return "SRV-target-not-a-host-name"
		}
	case dns.TypeHTTPS, dns.TypeSVCB:
		if v, ok := d.Value.(*rules.DNSSVCB); !ok || v == nil {
			return "SVCB-value-not-*DNSSVCB"
		} else if v.Target != "." && !c10ValidName(v.Target, false) {
			return "SVCB-target-not-a-host-name"
		}
	case dns.TypePTR:
		if v, ok := d.Value.(string); !ok || !strings.HasSuffix(v, ".") || !c10ValidName(v, true) {
			return "PTR-value-not-fqdn-string"
		}
	case dns.TypeTXT:
		if _, ok := d.Value.(string); !ok {
			return "TXT-value-not-string"
		}
	default:
		if d.Value != nil {
			return "value-for-type-without-value"
		}
	}
	return ""
}

// c10ValidName: dot-separated non-empty labels of letters, digits and inner
// hyphens; fqdn allows (and requires) exactly one trailing dot.
func c10ValidName(s string, fqdn bool) bool {
	if fqdn {
		if !strings.HasSuffix(s, ".") {
			return false
		}
		s = s[:len(s)-1]
	}
	if s == "" {
		return false
	}
	for _, l := range strings.Split(s, ".") {
		if l == "" {
			return false
		}
		for i, ch := range l {
			alnum := ch >= 'a' && ch <= 'z' || ch >= 'A' && ch <= 'Z' || ch >= '0' && ch <= '9'
			if !(alnum || (ch == '-' && i > 0)) {
				return false
			}
		}
	}
	return true
}

// c10Uint16 reads a decimal uint16 the way the documentation writes them.
func c10Uint16(s string) (uint16, bool) {
	if s == "" || len(s) > 8 {
		return 0, false
	}
	n := 0
	for _, ch := range s {
		if ch < '0' || ch > '9' {
			return 0, false
		}
		n = n*10 + int(ch-'0')
	}
	return uint16(n), n <= 65535
}

// c10RoundTrip compares the parsed value with the written one for the full
// form RCODE;TYPE;VALUE (independent reading of the documented field syntax).
func c10RoundTrip(value string, d *rules.DNSRewrite) string {
	parts := strings.SplitN(value, ";", 3)
	if len(parts) != 3 || d.RRType == 0 {
		return ""
	}
	val := parts[2]
	switch v := d.Value.(type) {
	case *rules.DNSMX:
		f := strings.SplitN(val, " ", 2)
		if len(f) != 2 {
			return "mx-field-count"
		}
		if n, ok := c10Uint16(f[0]); !ok || n != v.Preference || f[1] != v.Exchange {
			return "mx-fields"
		}
	case *rules.DNSSRV:
		f := strings.Split(val, " ")
		if len(f) < 4 {
			return "srv-field-count"
		}
		p, ok1 := c10Uint16(f[0])
		w, ok2 := c10Uint16(f[1])
		po, ok3 := c10Uint16(f[2])
		if !ok1 || !ok2 || !ok3 || p != v.Priority || w != v.Weight || po != v.Port || f[3] != v.Target {
			return "srv-fields"
		}
	case *rules.DNSSVCB:
		f := strings.Split(val, " ")
		if len(f) < 2 {
			return "svcb-field-count"
		}
		if p, ok := c10Uint16(f[0]); !ok || p != v.Priority || f[1] != v.Target {
			return "svcb-fields"
		}
		if len(v.Params) > len(f)-2 {
			return "svcb-params"
		}
		for _, kv := range f[2:] {
			k, pv, found := strings.Cut(kv, "=")
			if !found || v.Params[k] == "" && pv != "" {
				return "svcb-params"
			}
		}
	case netip.Addr:
		if a, err := netip.ParseAddr(val); err != nil || a != v {
			return "address"
		}
	case string:
		if d.RRType == dns.TypeTXT && v != val {
			return "txt"
		}
		if d.RRType == dns.TypePTR && v != val && v != val+"." {
			return "ptr"
		}
	}
	return ""
}

// c10Consume is what a consumer following the RRValue documentation does.
func c10Consume(d *rules.DNSRewrite) (s string) {
	switch d.RRType {
	case dns.TypeA, dns.TypeAAAA:
		return d.Value.(netip.Addr).String()
	case dns.TypeMX:
		return d.Value.(*rules.DNSMX).Exchange
	case dns.TypeSRV:
		return d.Value.(*rules.DNSSRV).Target
	case dns.TypeHTTPS, dns.TypeSVCB:
		return d.Value.(*rules.DNSSVCB).Target
	case dns.TypePTR, dns.TypeTXT:
		return d.Value.(string)
	}
	return ""
}

func checkC10(c c10Case, rec *Rec) *Violation {
	const id = "C10"
	// a value is one modifier value: an unescaped comma would start the next
	// modifier and a dollar sign would be taken for the options delimiter
	if strings.ContainsAny(c.Value, ",$\n\r") || strings.HasSuffix(c.Value, "\\") {
		rec.Label("skipped:not-a-single-modifier-value")
		return nil
	}
	txt := "||h^$dnsrewrite=" + c.Value
	r1, err1 := rules.NewNetworkRule(txt, 1)
	r2, err2 := rules.NewNetworkRule(txt, 1)
	if (err1 == nil) != (err2 == nil) {
		return viol(id, "C10:nondeterministic", "parsing %q twice: errors %v / %v", txt, err1, err2)
	}
	if err1 != nil {
		if r1 != nil {
			return viol(id, "C10:rule-with-error", "parsing %q returned both a rule and the error %v", txt, err1)
		}
		if strings.Count(c.Value, ";") >= 2 {
			rec.Label("rejected-by-handler-or-rcode")
			rec.NonTrivial("rej|"+c.Value, map[string]any{"value": c.Value, "outcome": "error: " + err1.Error()})
		} else {
			rec.Label("rejected-short-or-field-count")
		}
		return nil
	}
	d := r1.DNSRewrite
	if d == nil {
		// the value contained an unescaped comma and "dnsrewrite" was not the last modifier, or similar
		rec.Label("accepted-without-rewrite")
		return viol(id, "C10:accepted-without-rewrite", "rule %q parsed but carries no DNSRewrite", txt)
	}
	if s := c10Shape(d); s != "" {
		return viol(id, "C10:shape:"+s, "value %q accepted with DNSRewrite %+v (Value %T): %s", c.Value, *d, d.Value, s)
	}
	if !reflect.DeepEqual(d, r2.DNSRewrite) {
		return viol(id, "C10:nondeterministic", "parsing %q twice gives %+v and %+v", txt, *d, *r2.DNSRewrite)
	}
	if parts := strings.SplitN(c.Value, ";", 3); len(parts) == 3 && parts[1] != "" && d.RCode == dns.RcodeSuccess && d.NewCNAME == "" {
		// full form with a record type: the accepted type is the one written, and it is a real type
		want, known := dns.StringToType[strings.ToUpper(parts[1])]
		if !known || want == dns.TypeNone || want == dns.TypeReserved || d.RRType != want {
			return viol(id, "C10:type-differs-from-text", "value %q accepted with record type %d (%s); the text names %q (known to the DNS library: %v, type %d)", c.Value, d.RRType, dns.TypeToString[d.RRType], parts[1], known, want)
		}
	}
	if strings.Contains(c.Value, "\\\\") {
		// Two backslashes in a row: the modifier-list syntax defines "\\," only; what a doubled escape
		// character stands for is not specified (the parser keeps one of them), so the value itself is
		// not compared with the text.  The shape and determinism checks above still apply.
		rec.Label("value-not-compared:doubled-escape-character")
	} else if s := c10RoundTrip(c.Value, d); s != "" {
		return viol(id, "C10:value-differs-from-text:"+s, "value %q accepted with DNSRewrite %+v (Value %+v): %s", c.Value, *d, d.Value, s)
	}
	_ = c10Consume(d) // panics (=> violation) if the dynamic type is not the documented one
	rec.Label("accepted:" + dns.TypeToString[d.RRType])
	rec.NonTrivial("acc|"+c.Value, map[string]any{"value": c.Value, "rcode": d.RCode, "rrtype": d.RRType, "new_cname": d.NewCNAME})
	return nil
}

var c10RCodes = []string{"NOERROR", "noerror", "NXDOMAIN", "SERVFAIL", "REFUSED", "YXDOMAIN", "BADVERS", "FOO", "", "NoError", "FORMERR", "NOTIMP", "BADSIG", "BADCOOKIE"}
var c10Types = []string{"A", "AAAA", "CNAME", "MX", "PTR", "TXT", "HTTPS", "SVCB", "SRV", "NS", "SOA", "a", "aaaa", "NONE", "RESERVED", "ANY", "", "TYPE65", "X", "mx", "srv", "https", "Ptr", "OPT", "CAA", "none", "None", "Reserved", "reserved", "Any", "aaaaaaaaaaaaaaaaa", "AAAAAAAAAAAAAAAAAAAAAAAAAAAAAAAAAAAAAAAAAAAA", "TYPE4294967296", strings.Repeat("x", 300),
	"ſrv", "httpſ", "ſvcb", "KX", "URI", "uri"} // long s and Kelvin sign: upper-case to ASCII letters
var c10Vals = []string{"", "1.2.3.4", "::1", "::ffff:1.2.3.4", "[::1]", "1.2.3", "256.1.1.1", "host.example", "host.example.", "host.example..", "h..example.", ".", "..", "-a.b", "a_b.c",
	"10 mail.x", "10  mail.x", "65536 mail.x", "65535 mail.x", "-1 mail.x", "10 .", "10", "0 m.x", "1e20 m.x", "1 2 3 t.x", "1 2 3 .", "1 2 65536 t.x", "65535 65535 65535 t.x",
	"1 2 3", "1 2 3 t.x extra", "1 .", "1 . alpn=h3", "1 . alpn", "1 . a=b=c", "1 t.x ipv4hint=1.2.3.4 port=8443", "99999 .", "1 . dohpath=", "1 . dohpath=/dns-query{?dns}", "1 t.x alpn=", "1 . =x", "1 . dohpath=x",
	"v=spf1 -all", "0 issue letsencrypt.org", "hello world", "a;b",
	strings.Repeat("a", 64), strings.Repeat("a", 63), strings.Repeat("t", 255), strings.Repeat("t", 256), strings.Repeat("long text ", 60), "xn--e1afmkfd.xn--p1ai", "0.0.0.0", "::", "1.2.3.4.", " 1.2.3.4", "fe80::1%eth0", "a..b", "a.b..", "1", "00 m.x", "+1 m.x",
	// code points beyond Latin-1 and invalid UTF-8, in first and later positions of a label
	"ex\u0430mple.net", "\u043f\u0440\u0438\u043c\u0435\u0440.\u0440\u0444", "h\u4f8b.jp", "ex\u00e4mple.de", "a\xffb.example", "host.ex\u0131mple", "10 ma\u0131l.x", "1 2 3 t\u0430.x", "1 \u4f8bx.y", "1 s\u0430.x alpn=h3"}
var c10Shorts = []string{"NOERROR", "NXDOMAIN", "SERVFAIL", "REFUSED", "FORMERR", "A", "ABC", "abc", "Abc", "1.2.3.4", "::", "1.2.3.4.5", "example.org", "example.org.",
	"EXAMPLE", "exa mple", "a;b", ";", ";;", ";;;", "NOERROR;A", "NOERROR;;", "", "::ffff:1.2.3.4", "[::1]", "fe80::1%eth0", "a-.b", "-", "1", "dead.beef", "1.2.3.256", "::g",
	"ex\u0430mple.net", "h\u4f8b.jp", "a\xffb.example", "\u4f8b.jp", "ex\u00e4mple.de"}

// every record type name known to the DNS library, in both letter cases
var c10AllTypes = func() []string {
	var out []string
	for name := range dns.StringToType {
		out = append(out, name, strings.ToLower(name))
	}
	sort.Strings(out)
	return out
}()

func genC10(t *rapid.T) c10Case {
	switch rapid.IntRange(0, 9).Draw(t, "form") {
	case 0, 1:
		return c10Case{Value: pick(t, "short", c10Shorts)}
	case 2:
		// numeric bounds around uint16 for MX/SRV/SVCB fields
		n := pick(t, "num", []string{"-1", "0", "1", "65535", "65536", "4294967296", "1e20", "0x10", " 5", "5 ", "٣", "010", "08", "0b101", "0o17", "1_000", "+5", "00"})
		switch rapid.IntRange(0, 2).Draw(t, "which") {
		case 0:
			return c10Case{Value: "NOERROR;MX;" + n + " m.x"}
		case 1:
			return c10Case{Value: "NOERROR;SRV;1 " + n + " 3 t.x"}
		}
		return c10Case{Value: "NOERROR;HTTPS;" + n + " ."}
	case 3:
		// generated host names with bad labels
		h := rapid.StringMatching(`[a-zA-Z0-9_.-]{0,20}`).Draw(t, "host")
		ty := pick(t, "hosttype", []string{"CNAME", "PTR", "MX", "SRV", "SVCB", ""})
		switch ty {
		case "":
			return c10Case{Value: h}
		case "MX":
			return c10Case{Value: "NOERROR;MX;5 " + h}
		case "SRV":
			return c10Case{Value: "NOERROR;SRV;1 2 3 " + h}
		case "SVCB":
			return c10Case{Value: "NOERROR;SVCB;1 " + h + " alpn=h2"}
		}
		return c10Case{Value: "NOERROR;" + ty + ";" + h}
	case 4:
		// free printable value with the right field count
		v := rapid.StringMatching(`[ -#%-+\--~]{0,24}`).Draw(t, "free") // printable ASCII without comma and dollar
		return c10Case{Value: pick(t, "rc", c10RCodes) + ";" + pick(t, "ty", c10Types) + ";" + v}
	}
	ty := pick(t, "type", c10Types)
	if chance(t, "any-type", 3) {
		ty = pick(t, "type-any", c10AllTypes)
	}
	return c10Case{Value: pick(t, "rcode", c10RCodes) + ";" + ty + ";" + pick(t, "val", c10Vals)}
}

func init() { register("C10", checkC10) }

func TestC10(t *testing.T) {
	runProp(t, "C10", checkC10, nil, part[c10Case]{"value-grammar", scale(40000, 150000), genC10})
}

// FuzzC10 is the coverage-guided byte-level search (thorough tier).
func FuzzC10(f *testing.F) {
	for _, s := range []string{"1.2.3.4", "NOERROR;A;1.2.3.4", "NOERROR;MX;10 mail.x", "NOERROR;SRV;1 2 3 t.x", "NOERROR;HTTPS;1 . alpn=h3",
		"NXDOMAIN;;", "example.org", "NOERROR;PTR;host.example.", "NOERROR;TXT;hello", "REFUSED", "NOERROR;AAAA;::1", ";;", "NOERROR;SVCB;65536 t.x"} {
		f.Add(s)
	}
	f.Fuzz(func(t *testing.T, v string) {
		if strings.ContainsAny(v, ",\n\r") || strings.HasSuffix(v, "\\") {
			return // not a single modifier value
		}
		fuzzCheck(t, "C10", checkC10, c10Case{Value: v})
	})
}
