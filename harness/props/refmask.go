package props

import "strings"

// Reference implementation of the documented mask language (DESIGN.md 3.4).
// It is written directly from the syntax documentation (rules/regex.go doc
// comments and the AdGuard KB) and shares no code with the translation to
// regular expressions that it is compared against.

type maskTok struct {
	kind byte // 'L' literal byte, '*' any string, '^' separator
	c    byte
}

type refMask struct {
	any      bool
	startURL bool
	startA   bool
	endA     bool
	toks     []maskTok
}

// parseRefMask parses the pattern part of a basic rule.
func parseRefMask(p string) refMask {
	if strings.HasSuffix(p, "/*") {
		p = p[:len(p)-2] + "^"
	}
	if p == "" || p == "|" || p == "||" || p == "*" {
		return refMask{any: true}
	}
	var m refMask
	if strings.HasPrefix(p, "||") {
		m.startURL = true
		p = p[2:]
	} else if strings.HasPrefix(p, "|") {
		m.startA = true
		p = p[1:]
	}
	if strings.HasSuffix(p, "|") && len(p) > 0 {
		m.endA = true
		p = p[:len(p)-1]
	}
	for i := 0; i < len(p); i++ {
		switch p[i] {
		case '*':
			m.toks = append(m.toks, maskTok{kind: '*'})
		case '^':
			m.toks = append(m.toks, maskTok{kind: '^'})
		default:
			m.toks = append(m.toks, maskTok{kind: 'L', c: p[i]})
		}
	}
	return m
}

func lowerByte(c byte) byte {
	if c >= 'A' && c <= 'Z' {
		return c + 32
	}
	return c
}

// isSepByte: "any character, but a letter, a digit, or one of _ - . %"; the
// space is not a separator in any AdGuard implementation.
func isSepByte(c byte) bool {
	if c == ' ' {
		return false
	}
	if (c >= 'a' && c <= 'z') || (c >= 'A' && c <= 'Z') || (c >= '0' && c <= '9') {
		return false
	}
	return !strings.ContainsRune("._%-", rune(c))
}

// maskMemo memoises matchFrom over (pos, token index): 0 unknown, 1 true, 2 false.
type maskMemo struct {
	w int
	v []int8
}

func (m refMask) matchFrom(s string, pos, ti int, mc bool, memo *maskMemo) bool {
	k := pos*memo.w + ti
	if v := memo.v[k]; v != 0 {
		return v == 1
	}
	res := m.matchFrom1(s, pos, ti, mc, memo)
	if res {
		memo.v[k] = 1
	} else {
		memo.v[k] = 2
	}
	return res
}

func (m refMask) matchFrom1(s string, pos, ti int, mc bool, memo *maskMemo) bool {
	if ti == len(m.toks) {
		return !m.endA || pos == len(s)
	}
	t := m.toks[ti]
	switch t.kind {
	case '*':
		for k := pos; k <= len(s); k++ {
			if m.matchFrom(s, k, ti+1, mc, memo) {
				return true
			}
		}
		return false
	case '^':
		if pos < len(s) && isSepByte(s[pos]) && m.matchFrom(s, pos+1, ti+1, mc, memo) {
			return true
		}
		if pos == len(s) {
			return m.matchFrom(s, pos, ti+1, mc, memo)
		}
		return false
	default:
		if pos >= len(s) {
			return false
		}
		a, b := s[pos], t.c
		if !mc {
			a, b = lowerByte(a), lowerByte(b)
		}
		return a == b && m.matchFrom(s, pos+1, ti+1, mc, memo)
	}
}

func hostByte(c byte, mc bool) bool {
	if !mc {
		c = lowerByte(c)
	}
	return (c >= 'a' && c <= 'z') || (c >= '0' && c <= '9') || c == '-' || c == '_' || c == '.'
}

// match reports whether s is in the language of the mask.  A '.' in Go's
// regexp does not match '\n'; generators never produce it.
func (m refMask) match(s string, mc bool) bool {
	if m.any {
		return true
	}
	memo := &maskMemo{w: len(m.toks) + 1, v: make([]int8, (len(s)+1)*(len(m.toks)+1))}
	if m.startURL {
		for _, sch := range []string{"http", "https", "ws", "wss"} {
			pre := sch + "://"
			if len(s) < len(pre) {
				continue
			}
			head := s[:len(pre)]
			if !mc {
				head = strings.ToLower(head)
			}
			if head != pre {
				continue
			}
			p0 := len(pre)
			if m.matchFrom(s, p0, 0, mc, memo) {
				return true
			}
			// optional sub-domain part: host characters followed by '.'
			for k := p0; k < len(s) && hostByte(s[k], mc); k++ {
				if s[k] == '.' && k > p0 {
					if m.matchFrom(s, k+1, 0, mc, memo) {
						return true
					}
				}
			}
		}
		return false
	}
	if m.startA {
		return m.matchFrom(s, 0, 0, mc, memo)
	}
	for k := 0; k <= len(s); k++ {
		if m.matchFrom(s, k, 0, mc, memo) {
			return true
		}
	}
	return false
}

// isMaskPattern reports whether the pattern text is a mask (and not something
// the syntax defines otherwise): not a /regex/, no leading exception marker, no
// trailing backslash (which would escape the options delimiter).
func isMaskPattern(p string) bool {
	if len(p) > 1 && p[0] == '/' && p[len(p)-1] == '/' {
		return false
	}
	if strings.HasPrefix(p, "@@") || strings.HasSuffix(p, "\\") {
		return false
	}
	return true
}

// isRegexText reports whether the pattern text is a /regular expression/.
func isRegexText(p string) bool {
	return len(p) > 1 && p[0] == '/' && p[len(p)-1] == '/'
}
