package props

import "testing"

// TestReplay re-runs the single replay file named by VERIF_REPLAY.
func TestReplay(t *testing.T) { replayOne(t) }
