package props

import "testing"

// TestReplay re-runs the single replay file named by VERIF_REPLAY.
func TestReplay(t *testing.T) { replayOne(t) }

// FuzzNone only warms the instrumented build cache (see ./check --setup).
func FuzzNone(f *testing.F) { fuzzNone(f) }
