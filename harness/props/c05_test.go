package props

import (
	"bufio"
	"os"
	"path/filepath"
	"regexp"
	"regexp/syntax"
	"strings"
	"sync"
	"testing"
	"unicode"

	"github.com/AdguardTeam/urlfilter"
	"github.com/AdguardTeam/urlfilter/rules"
	"pgregory.net/rapid"
)

// C05 — the shortcut pre-check never rejects a request the rule accepts.

type c05Case struct {
	Rule      string   `json:"rule"`
	Witnesses []string `json:"witnesses"`
	// OtherModifiers: the rule (a bundled one) carries modifiers the request
	// is not built for, so only the shortcut implication is checked.
	OtherModifiers bool `json:"other_modifiers,omitempty"`
}

var c05Lits = []string{"ad", "ads", "banner", "Track", "x", "foo", "bar", "example", "org", "Pixel", "gif", "a1", "B2b", "-", "_", "=", "&", "%", ":", "js", "abcdef", "adserver", "doubleclick"}

func repoDir() string {
	if d := os.Getenv("VERIF_REPO"); d != "" {
		return d
	}
	return "/repo"
}

func c05Classify(rule string) string {
	if !(strings.HasPrefix(strings.TrimPrefix(rule, "@@"), "/")) {
		return "mask"
	}
	switch {
	case strings.Contains(rule, "|"):
		return "regex-alternation"
	case strings.Contains(rule, "{0") || strings.Contains(rule, "*"):
		return "regex-zero-min-quantifier"
	case regexp.MustCompile(`\\[a-zA-Z]`).MatchString(rule):
		return "regex-letter-escape"
	}
	return "regex-other"
}

// c05Bystanders: rules with literal shortcuts that are frequent in the witness strings.
var c05Bystanders = strings.Join([]string{"://example", "example.org/", "h.example/", "xample.com", ".example/", "//example.", "://x.com/", "example.org/q", "tp://h", "qqqqqq",
	"://www.", "http://a", "ttp://ex", "s://exam", ".org/ads", ".com/ban", "://sub.", "http://1", "http://g", "://goog", "p://x."}, "\n") + "\n"

func checkC05(c c05Case, rec *Rec) *Violation {
	const id = "C05"
	rule, err := rules.NewNetworkRule(c.Rule, 1)
	if err != nil {
		rec.Label("skipped:rule-rejected")
		return nil
	}
	re, status := rule.VerifRegexp()
	if status == -1 {
		rec.Label("skipped:pattern-does-not-compile")
		return nil
	}
	accepted := map[string]bool{}
	var engine *urlfilter.NetworkEngine
	// every witness is also tried with exactly one letter (all its occurrences) in upper case
	witnesses := append([]string{}, c.Witnesses...)
	for i, u := range c.Witnesses {
		if i < 3 && len(u) < 200 {
			// the same witness pushed towards, across and beyond the 4096-byte cap of the request URL
			for _, n := range []int{4096 - len(u), 4096 - len(u)/2, 4090, 4100} {
				if n > 0 {
					witnesses = append(witnesses, "http://h.example/"+strings.Repeat("q", n-17)+u)
				}
			}
		}
	}
	for _, u := range c.Witnesses {
		seen := map[byte]bool{}
		for i := 0; i < len(u) && len(witnesses) < 400; i++ {
			ch := u[i]
			if ch >= 'a' && ch <= 'z' && !seen[ch] {
				seen[ch] = true
				witnesses = append(witnesses, strings.ReplaceAll(u, string(ch), string(ch-32)))
			}
		}
	}
	for _, u := range witnesses {
		// "accepts the URL": the URL as the request carries it (capped), matched by the compiled pattern
		req := rules.NewRequest(u, "http://example.org/", rules.TypeOther)
		ok := status == 0 || re.MatchString(req.URL)
		if !ok {
			rec.Label("witness-not-accepted")
			continue
		}
		accepted[u] = true
		rec.Label("witness-accepted")
		if !strings.Contains(req.URLLowerCase, rule.Shortcut) {
			return viol(id, "C05:shortcut-not-implied:"+c05Classify(c.Rule),
				"rule %q: compiled pattern %v accepts %q but the lower-cased string does not contain the shortcut %q", c.Rule, re, u, rule.Shortcut)
		}
		src := "http://example.org/"
		if !c.OtherModifiers && engine == nil && asNetworkLine(c.Rule) {
			// the same pre-check exists in the shortcut index of the engine
			// other rules share the index: literal rules whose shortcuts occur in many witnesses, ahead of the rule's own
			st, cleanup, err := buildStorage([]ListSpec{{ID: 1, Text: c.Rule + "\n||filler.example^\n" + c05Bystanders}})
			if err != nil {
				return viol(id, "C05:harness", "storage: %v", err)
			}
			defer cleanup()
			engine = urlfilter.NewNetworkEngine(st)
		}
		if engine != nil {
			found := false
			for _, r := range engine.MatchAll(rules.NewRequest(u, src, rules.TypeOther)) {
				if r.Text() == c.Rule {
					found = true
				}
			}
			if !found {
				return viol(id, "C05:engine-precheck-rejects-accepted:"+c05Classify(c.Rule),
					"rule %q: pattern accepts %q but NetworkEngine.MatchAll does not return the rule (shortcut %q)", c.Rule, u, rule.Shortcut)
			}
		}
		if !c.OtherModifiers && !rule.Match(rules.NewRequest(u, src, rules.TypeOther)) {
			// other conjuncts: the generated rules only carry $domain=example.org / $match-case
			return viol(id, "C05:match-rejects-accepted:"+c05Classify(c.Rule),
				"rule %q: pattern accepts %q but Match is false (shortcut %q)", c.Rule, u, rule.Shortcut)
		}
	}
	if rule.Shortcut != "" && len(accepted) >= 2 {
		rec.NonTrivial(c.Rule, map[string]any{"rule": c.Rule, "shortcut": rule.Shortcut, "accepted_witnesses": sortedKeys(accepted)})
	}
	if rule.Shortcut != "" {
		rec.Label("rule-with-shortcut:" + c05Classify(c.Rule))
	} else {
		rec.Label("rule-without-shortcut")
	}
	return nil
}

// asNetworkLine: does the text, read as a list line, give this network rule
// (and not e.g. a cosmetic rule because it contains a marker)?
func asNetworkLine(text string) bool {
	r, err := rules.NewRule(text, 1)
	nr, ok := r.(*rules.NetworkRule)
	return err == nil && ok && nr != nil && nr.Text() == text
}

func genRe(t *rapid.T, depth int) string {
	n := rapid.IntRange(1, 4).Draw(t, "natoms")
	var sb strings.Builder
	for i := 0; i < n; i++ {
		var atom string
		switch x := rapid.IntRange(0, 13).Draw(t, "atom"); {
		case x < 5:
			atom = strings.ReplaceAll(regexp.QuoteMeta(pick(t, "lit", c05Lits)), "/", `\/`)
		case x == 5:
			atom = pick(t, "esc", []string{`\d`, `\w`, `\s`, `\b`, `\.`, `\/`, `\x41`, `\x2f`, `\D`, `\W`, `\-`, `\_`})
		case x == 6:
			atom = pick(t, "class", []string{"[a-z]", "[0-9]", "[abc]", "[^/]", "[a-zA-Z0-9_-]", ".", "[ab]ds"})
		case x == 7 && depth < 2:
			atom = "(" + genRe(t, depth+1) + ")"
		case x == 8 && depth < 2:
			atom = pick(t, "grp", []string{"(", "(?:"}) + genRe(t, depth+1) + "|" + genRe(t, depth+1) + ")"
		case x == 9 && depth < 2:
			atom = genRe(t, depth+1) + "|" + genRe(t, depth+1)
			if i > 0 || n > 1 {
				atom = "(" + atom + ")"
			}
		case x == 10:
			atom = pick(t, "anchor", []string{"^", "$", `\/\/`, `:\/\/`, "http", `^https?:\/\/`})
		default:
			atom = regexp.QuoteMeta(pick(t, "lit2", c05Lits))
		}
		if chance(t, "quant", 4) && atom != "^" && atom != "$" && !strings.HasSuffix(atom, `\b`) {
			atom += pick(t, "q", []string{"*", "+", "{0,2}", "{1,3}", "{2}", "{0}", "{1,}", "{0,}", "?"})
		}
		sb.WriteString(atom)
	}
	return sb.String()
}

// sampleRe writes a string matched by re (best effort; the caller filters by
// the compiled matcher).
func sampleRe(t *rapid.T, re *syntax.Regexp, sb *strings.Builder, depth int) {
	switch re.Op {
	case syntax.OpLiteral:
		for _, c := range re.Rune {
			if re.Flags&syntax.FoldCase != 0 && chance(t, "flip", 2) {
				if unicode.IsLower(c) {
					c = unicode.ToUpper(c)
				} else {
					c = unicode.ToLower(c)
				}
			}
			sb.WriteRune(c)
		}
	case syntax.OpCharClass:
		var cands []rune
		for i := 0; i+1 < len(re.Rune); i += 2 {
			for c := re.Rune[i]; c <= re.Rune[i+1] && c < 127; c++ {
				if c >= 32 {
					cands = append(cands, c)
				}
			}
		}
		if len(cands) > 0 {
			sb.WriteRune(cands[rapid.IntRange(0, len(cands)-1).Draw(t, "member")])
		}
	case syntax.OpAnyCharNotNL, syntax.OpAnyChar:
		sb.WriteByte("aZ0/.-_%"[rapid.IntRange(0, 7).Draw(t, "any")])
	case syntax.OpCapture:
		sampleRe(t, re.Sub[0], sb, depth)
	case syntax.OpConcat:
		for _, s := range re.Sub {
			sampleRe(t, s, sb, depth)
		}
	case syntax.OpAlternate:
		sampleRe(t, re.Sub[rapid.IntRange(0, len(re.Sub)-1).Draw(t, "branch")], sb, depth)
	case syntax.OpStar:
		for k := rapid.IntRange(0, 2).Draw(t, "star"); k > 0; k-- {
			sampleRe(t, re.Sub[0], sb, depth+1)
		}
	case syntax.OpPlus:
		for k := rapid.IntRange(1, 2).Draw(t, "plus"); k > 0; k-- {
			sampleRe(t, re.Sub[0], sb, depth+1)
		}
	case syntax.OpQuest:
		if chance(t, "quest", 2) {
			sampleRe(t, re.Sub[0], sb, depth+1)
		}
	case syntax.OpRepeat:
		mx := re.Max
		if mx < 0 {
			mx = re.Min + 2
		}
		k := re.Min
		if mx > re.Min && chance(t, "more", 2) {
			k += rapid.IntRange(0, mx-re.Min).Draw(t, "rep")
		}
		for ; k > 0; k-- {
			sampleRe(t, re.Sub[0], sb, depth+1)
		}
	}
}

func c05RegexWitnesses(t *rapid.T, src string, fold bool, n int) []string {
	flags := syntax.Perl
	if fold {
		flags |= syntax.FoldCase
	}
	ast, err := syntax.Parse(src, flags)
	if err != nil {
		return nil
	}
	var out []string
	for j := 0; j < n; j++ {
		var sb strings.Builder
		if chance(t, "prefix", 3) {
			sb.WriteString(pick(t, "pre", []string{"http://", "https://x.com/", "zz"}))
		}
		sampleRe(t, ast, &sb, 0)
		if chance(t, "suffix", 3) {
			sb.WriteString(pick(t, "suf", []string{"/", "?q=1", "zz"}))
		}
		out = append(out, sb.String())
	}
	return out
}

func genC05Regex(t *rapid.T) c05Case {
	src := genRe(t, 0)
	c := c05Case{Rule: "/" + src + "/"}
	fold := true
	if chance(t, "opts", 5) {
		c.Rule += "$match-case"
		fold = false
	} else if chance(t, "exc", 8) {
		c.Rule = "@@" + c.Rule
	}
	c.Witnesses = c05RegexWitnesses(t, src, fold, rapid.IntRange(8, 20).Draw(t, "nw"))
	return c
}

func genC05Mask(t *rapid.T) c05Case {
	m := genC03(t)
	m.Variant = 0 // C05's witnesses are requests of type "other": no document-level modifiers here
	c := c05Case{Rule: c03RuleText(m)}
	// every derived string is a candidate witness: whether it is accepted is
	// decided in the check by the rule's own compiled matcher, not by the
	// reference (a translation defect can make the matcher accept more)
	c.Witnesses = append(c.Witnesses, m.Strings...)
	// literal-heavy patterns: the shortcut is long, witnesses vary the case
	if chance(t, "literal-heavy", 2) {
		lit := pick(t, "l1", c05Lits) + pick(t, "mid", []string{"", "*", "^", "/", "."}) + pick(t, "l2", c05Lits)
		p := pick(t, "pre", []string{"", "|", "||"}) + lit + pick(t, "suf", []string{"", "|", "^", "*"})
		mc := chance(t, "mc2", 4)
		c = c05Case{Rule: c03RuleText(c03Case{Pattern: p, MC: mc})}
		for i := 0; i < 12; i++ {
			c.Witnesses = append(c.Witnesses, c03Derive(t, p, mc))
		}
	}
	// masks that read like a /regex/ once their asterisks are dropped
	if chance(t, "slash-delimited-mask", 8) {
		word := pick(t, "sdm-word", []string{"ads", "banner", "ad[s]", "a.s", "x|y"})
		p := pick(t, "sdm-pre", []string{"*", "**", "*", ""}) + "/" + word + "/" + pick(t, "sdm-suf", []string{"", "*", "**"})
		if !strings.HasPrefix(p, "*") && !strings.HasSuffix(p, "*") {
			p = "*" + p
		}
		c = c05Case{Rule: c03RuleText(c03Case{Pattern: p})}
		for _, w := range []string{"ads", "banner", "ad[s]", "a.s", "axs", "x", "y", "x|y"} {
			c.Witnesses = append(c.Witnesses, "http://example.org/my"+w+".js", "http://example.org/"+w+"/", "http://example.org/q/"+w+"/x", "http://"+w+".example/")
		}
	}
	// regular expressions whose body begins or ends with a slash of its own
	if chance(t, "regex-with-edge-slashes", 10) {
		c = c05Case{Rule: pick(t, "res-rule", []string{"/\\.com/ads//", "//banner\\d+\\.gif/", "//ads//", "/example\\.org//", "///x\\.js/", "/\\/ads\\//"})}
		c.Witnesses = append(c.Witnesses, "http://x.com/ads.js", "http://x.com/ads/", "http://x.com/ads", "http://x.com/banner12.gif", "http://x.com//banner12.gif", "http://x.com/q/banner1.gif",
			"http://example.org/", "http://example.orgx", "http://example.org", "http://x.com/x.js", "http://x.com//x.js", "http://x.com/a/ads/b", "http://x.com/myads.js")
	}
	return c
}

var (
	bundledOnce  sync.Once
	bundledRegex []string
)

func loadBundledRegexRules() []string {
	bundledOnce.Do(func() {
		for _, f := range []string{"testdata/easylist.txt", "testdata/adguard_sdn_filter.txt", "examples/proxy/adguard_russian_filter.txt"} {
			fh, err := os.Open(filepath.Join(repoDir(), f))
			if err != nil {
				continue
			}
			sc := bufio.NewScanner(fh)
			sc.Buffer(make([]byte, 1<<20), 1<<20)
			for sc.Scan() {
				line := strings.TrimSpace(sc.Text())
				r, err := rules.NewRule(line, 1)
				if nr, ok := r.(*rules.NetworkRule); ok && err == nil && nr.IsRegexRule() {
					bundledRegex = append(bundledRegex, line)
				}
			}
			fh.Close()
		}
	})
	return bundledRegex
}

func genC05Bundled(t *rapid.T) c05Case {
	rs := loadBundledRegexRules()
	if len(rs) == 0 {
		return genC05Regex(t)
	}
	line := rs[rapid.IntRange(0, len(rs)-1).Draw(t, "bundled")]
	r, _ := rules.NewNetworkRule(line, 1)
	pat := r.VerifPattern()
	src := pat[1 : len(pat)-1]
	fold := !strings.Contains(line, "match-case")
	return c05Case{Rule: line, Witnesses: c05RegexWitnesses(t, src, fold, 16), OtherModifiers: true}
}

func init() { register("C05", checkC05) }

func TestC05(t *testing.T) {
	runProp(t, "C05", checkC05, nil,
		part[c05Case]{"regex-grammar", scale(10000, 40000), genC05Regex},
		part[c05Case]{"mask-patterns", scale(5000, 20000), genC05Mask},
		part[c05Case]{"bundled-regex-rules", scale(1000, 4000), genC05Bundled})
}
