package props

import (
	"fmt"
	"regexp"
	"strings"
	"testing"

	"github.com/AdguardTeam/urlfilter"
	"github.com/AdguardTeam/urlfilter/rules"
	"pgregory.net/rapid"
)

// C02 — DNS engine answer equals the reference resolution over all rules.

type c02Entry struct {
	Text  string    `json:"text"`
	Model *NetModel `json:"model,omitempty"` // nil for hosts lines / bare domains
	List  int       `json:"list"`            // index into the list ids
	// Names/IP: set by the generator for hosts lines and bare domains it wrote itself; the reference then
	// reads the line at text level instead of asking the parser under test what kind of line it is
	Names []string `json:"names,omitempty"`
	IP    string   `json:"ip,omitempty"`
}

type c02Case struct {
	IDs     []int      `json:"ids"`
	Entries []c02Entry `json:"entries"`
	Reqs    []Q        `json:"reqs"`
}

// c02Applicable: the documented host-level notion computed on the model: no
// $domain, no negated flag option, flag options within {important,
// badfilter}, not both an include and an exclude content-type list.
func c02Applicable(m *NetModel) bool {
	if m == nil {
		return true
	}
	if len(m.DPerm)+len(m.DRestr) > 0 {
		return false
	}
	if len(m.TIncl) > 0 && len(m.TExcl) > 0 {
		return false
	}
	if m.TP != 0 || m.MC {
		return false
	}
	for _, e := range m.Extra {
		if e != "important" && e != "badfilter" {
			return false
		}
	}
	return true
}

func c02Lists(c c02Case) []ListSpec {
	out := make([]ListSpec, len(c.IDs))
	for i, id := range c.IDs {
		out[i].ID = id
	}
	for _, e := range c.Entries {
		out[e.List].Text += e.Text + "\n"
	}
	return out
}

func checkC02(c c02Case, rec *Rec) *Violation {
	const id = "C02"
	lists := c02Lists(c)
	st, cleanup, err := buildStorage(lists)
	if err != nil {
		return viol(id, "C02:harness", "storage: %v", err)
	}
	defer cleanup()
	d := urlfilter.NewDNSEngine(st)
	hasHosts, hasNet := false, false
	for _, e := range c.Entries {
		r, perr := rules.NewRule(e.Text, 0)
		if perr != nil || r == nil {
			continue
		}
		switch r.(type) {
		case *rules.HostRule:
			hasHosts = true
		case *rules.NetworkRule:
			hasNet = true
		}
	}
	for _, q := range c.Reqs {
		res, matched := d.MatchRequest(mkDNSReq(q))
		wantNet := map[string]bool{}
		var cands []*rules.NetworkRule
		keys := map[*rules.NetworkRule]string{}
		w4, w6 := map[string]bool{}, map[string]bool{}
		for _, e := range c.Entries {
			if len(e.Names) > 0 {
				// a hosts line the generator wrote: address, names, optional comment
				if inList(q.Hostname, e.Names) {
					if strings.Contains(e.IP, ":") {
						w6[strings.TrimSpace(e.Text)] = true
					} else {
						w4[strings.TrimSpace(e.Text)] = true
					}
				}
				continue
			}
			ruAny, perr := rules.NewRule(e.Text, c.IDs[e.List])
			if perr != nil || ruAny == nil {
				continue
			}
			switch ru := ruAny.(type) {
			case *rules.NetworkRule:
				// "match the hostname": the independent reference evaluator where the entry is a
				// mask rule with a model, the rule's own Match for regex patterns and model-less lines
				matches := ru.Match(mkReq(q))
				if e.Model != nil && (isMaskPattern(e.Model.Pat) || isRegexText(e.Model.Pat)) {
					matches, _ = refMatch(*e.Model, q)
				}
				if c02Applicable(e.Model) && matches {
					wantNet[ru.Text()] = true
					cands = append(cands, ru)
					if e.Model != nil {
						keys[ru] = modelKey(*e.Model)
					} else {
						keys[ru] = "text:" + ru.Text()
					}
				}
			case *rules.HostRule:
				// "hosts-file entries naming the hostname"
				if inList(q.Hostname, ru.Hostnames) {
					ipText := strings.Fields(ru.Text())[0]
					if len(ru.Hostnames) == 1 && ru.Text() == ru.Hostnames[0] {
						ipText = "0.0.0.0"
					}
					if strings.Contains(ipText, ":") {
						w6[ru.Text()] = true
					} else {
						w4[ru.Text()] = true
					}
				}
			}
		}
		gotNet := setOf(netTexts(res.NetworkRules))

		g4, g6 := map[string]bool{}, map[string]bool{}
		for _, x := range res.HostRulesV4 {
			g4[x.Text()] = true
		}
		for _, x := range res.HostRulesV6 {
			g6[x.Text()] = true
		}
		if len(wantNet)+len(w4)+len(w6) > 0 && hasHosts && hasNet {
			rec.NonTrivial(fmt.Sprint(c.Entries)+q.key(), map[string]any{"entries": c.Entries, "request": q,
				"reference_network": sortedKeys(wantNet), "reference_v4": sortedKeys(w4), "reference_v6": sortedKeys(w6)})
		}
		if !sameSet(gotNet, wantNet) {
			return viol(id, "C02:network-rules-differ", "request %+v: NetworkRules=%q, reference (applicable and matching)=%q", q, sortedKeys(gotNet), sortedKeys(wantNet))
		}
		// the reference basic rule by the documented precedence over the reference candidates
		class := refDNSClass(cands, keys)
		gotClass := "none"
		if res.NetworkRule != nil {
			gotClass = ruleClass(res.NetworkRule)
			if res.NetworkRule.DNSRewrite != nil || res.NetworkRule.IsOptionEnabled(rules.OptionBadfilter) {
				return viol(id, "C02:special-rule-as-basic", "request %+v: basic rule %q is a rewrite/badfilter rule", q, res.NetworkRule.Text())
			}
			if !wantNet[res.NetworkRule.Text()] {
				return viol(id, "C02:basic-rule-not-matching", "request %+v: basic rule %q is not among the matching applicable rules", q, res.NetworkRule.Text())
			}
		}
		if gotClass != class {
			return viol(id, "C02:basic-class-differs", "request %+v: basic rule %v has class %s, reference class %s (candidates %q)", q, res.NetworkRule, gotClass, class, sortedKeys(wantNet))
		}
		if class != "none" {
			rec.Label("basic-rule-shadows-hosts")
			if len(g4)+len(g6) != 0 {
				return viol(id, "C02:hosts-consulted-despite-basic-rule", "request %+v: basic rule %q and host rules %q/%q", q, res.NetworkRule.Text(), sortedKeys(g4), sortedKeys(g6))
			}
			if !matched {
				return viol(id, "C02:matched-flag", "request %+v: basic rule found but matched=false", q)
			}
			continue
		}
		if !sameSet(g4, w4) || !sameSet(g6, w6) {
			return viol(id, "C02:host-rules-differ", "request %+v: HostRulesV4=%q V6=%q, reference V4=%q V6=%q", q, sortedKeys(g4), sortedKeys(g6), sortedKeys(w4), sortedKeys(w6))
		}
		if matched != (len(w4)+len(w6) > 0) {
			return viol(id, "C02:matched-flag", "request %+v: matched=%v but reference host entries %d", q, matched, len(w4)+len(w6))
		}
		if len(w4)+len(w6) > 0 {
			rec.Label("answered-from-hosts")
		}
	}
	rec.LabelN("queries", len(c.Reqs))
	return nil
}

// ruleClass is the verdict class of a rule object.
func ruleClass(r *rules.NetworkRule) string {
	imp := r.IsOptionEnabled(rules.OptionImportant)
	switch {
	case r.Whitelist && imp:
		return "important-exception"
	case imp:
		return "important-block"
	case r.Whitelist:
		return "exception"
	}
	return "block"
}

// refDNSClass: documented precedence over the candidate rules, ignoring
// rewrite rules, rules disabled by a badfilter twin, and badfilter/stealth
// rules themselves.
func refDNSClass(cands []*rules.NetworkRule, keys map[*rules.NetworkRule]string) string {
	best := "none"
	order := map[string]int{"none": 0, "block": 1, "exception": 2, "important-block": 3, "important-exception": 4}
	for _, r := range cands {
		if r.DNSRewrite != nil || r.IsOptionEnabled(rules.OptionBadfilter) || r.IsOptionEnabled(rules.OptionStealth) {
			continue
		}
		if refBadfiltered(r, cands, keys) {
			continue
		}
		if cl := ruleClass(r); order[cl] > order[best] {
			best = cl
		}
	}
	return best
}

// refBadfiltered: is there a badfilter rule among cands that is the same rule
// apart from the badfilter modifier (same marker, pattern and the same set of
// modifiers with the same value sets; decided on the models)?
func refBadfiltered(r *rules.NetworkRule, cands []*rules.NetworkRule, keys map[*rules.NetworkRule]string) bool {
	for _, b := range cands {
		if b != r && b.IsOptionEnabled(rules.OptionBadfilter) && keys[b] == keys[r] {
			return true
		}
	}
	return false
}

func genC02(t *rapid.T) c02Case {
	nl := rapid.IntRange(1, 3).Draw(t, "nlists")
	c := c02Case{IDs: genListIDs(t, nl)}
	hostsU := []string{"example.org", "www.example.org", "google.com", "a.com", "1.2.3.4", "notexample.org", "sub.example.org", "реклама.example", "счётчик.example", "abc.de", "track.track.example.net", "ab.cd.ab.cd", "ad-server.example.org", "ad_server.example.org", "example.org.evil.example", "example.organic.example", "abc.de.x.example", "trk.example.com", "adserver.example.com", "ads.example.com", "banner.example.net", zeroHashNames[0], zeroHashNames[1], // these two hash to 0
		// a name of exactly 253 bytes, the longest a domain name can be (labels stay below 64)
		strings.Repeat("d", 63) + "." + strings.Repeat("e", 63) + "." + strings.Repeat("f", 63) + "." + strings.Repeat("g", 57) + ".com"}
	for _, cp := range hostColliders[:3] {
		hostsU = append(hostsU, cp[0], cp[1])
	}
	netPats := []string{"||example.org^", "||google.com^", "example", "a.com|", "||1.2.3.4^", "google", "||a.com^", "://1.2.", "|example.org|", "org",
		"||реклама.example^", "счётчик", "||abc.de^", "||track.example.net^", ".track.example.net^", "||ab.cd^", "abc.de",
		"/^Tracker[0-9]+\\.example\\.com/", "/Example\\.ORG/", "/^Ads[.-]/",
		"/ad-server.", "/sub.", "/ad_server.", "/track.track.", "||example.org/*", "||abc.de/*", "example.org/*",
		"/^adserver\\.|^trk\\./", "/(^|\\.)ads\\.|^banner/"}
	for _, cp := range hostColliders[:3] {
		netPats = append(netPats, "||"+cp[0]+"^", "||"+cp[1]+"^", cp[0][:4], "/^"+cp[0][:3]+"[0-9]/")
	}
	var longAliases []string
	// plainNames: the names are ordinary ASCII domain names (the documented shape of a hosts line); other
	// lines are left to the parser's own classification
	plainNames := func(ns []string) []string {
		for _, n := range ns {
			if !regexp.MustCompile(`^[a-z0-9-]+(\.[a-z0-9-]+)*$`).MatchString(n) || regexp.MustCompile(`^[0-9.]+$`).MatchString(n) {
				return nil
			}
		}
		return ns
	}
	k := rapid.IntRange(1, 16).Draw(t, "nentries")
	for i := 0; i < k; i++ {
		li := rapid.IntRange(0, nl-1).Draw(t, "list")
		if chance(t, "hosts-line", 3) {
			hs := subsetOf(t, "names", hostsU, 3)
			ip := pick(t, "ip", []string{"0.0.0.0", "127.0.0.1", "::", "::1", "::ffff:1.2.3.4", "10.0.0.1", "fe80::1", "fe80::1%lo0", "0000:0000:0000:0000:0000:ffff:192.168.100.200"})
			if chance(t, "bare-domain", 4) {
				c.Entries = append(c.Entries, c02Entry{Text: hs[0] + pick(t, "bare-tail", []string{"", "", " # note", "\t# note", "\t#x", "  #"}), List: li, Names: plainNames(hs[:1]), IP: "0.0.0.0"})
			} else if rare(t, "long-hosts-line", 8) {
				// a hosts line longer than the list reader's block: aliases on both sides of the boundary
				var al []string
				for i := 0; i < rapid.IntRange(280, 420).Draw(t, "naliases"); i++ {
					al = append(al, fmt.Sprintf("alias%03d.example", i))
				}
				al = append(al, hs[0])
				c.Entries = append(c.Entries, c02Entry{Text: ip + " " + strings.Join(al, " "), List: li, Names: plainNames(al), IP: ip})
				longAliases = append(longAliases, al[3], al[len(al)/2], al[len(al)-2])
			} else {
				c.Entries = append(c.Entries, c02Entry{Text: ip + pick(t, "ws", []string{" ", "\t", "  "}) + strings.Join(hs, " ") + pick(t, "line-tail", []string{"", "", " # c", "\t#c"}), List: li, Names: plainNames(hs), IP: ip})
			}
			continue
		}
		m := genNetModel(t, modelOpts{patterns: netPats})
		if chance(t, "dns-only", 2) {
			m.DPerm, m.DRestr, m.TP, m.MC = nil, nil, 0, false
			if chance(t, "no-types", 2) {
				m.TIncl, m.TExcl = nil, nil
			}
		}
		if chance(t, "extra", 4) {
			e := pick(t, "extra-flag", []string{"important", "badfilter", "important"})
			if m.Exc && chance(t, "doc-flag", 3) {
				e = pick(t, "doc", []string{"elemhide", "document", "urlblock", "stealth", "genericblock"})
			} else if !m.Exc && chance(t, "popup", 6) {
				e = "popup"
			}
			m.Extra = append(m.Extra, e)
		}
		if chance(t, "rewrite", 8) {
			v := pick(t, "rw", []string{"1.2.3.4", "NXDOMAIN", "x.example", ""})
			if v != "" || m.Exc {
				m.Rewrite = &v
			}
		}
		if wideMask(m.Pat) && !m.hasRestriction() {
			m.Deny = []string{"b.net"}
		}
		if strings.Contains(m.Pat, "abc.de") && chance(t, "deny-on-hex-name", 2) {
			m.Deny = []string{"b.net"}
		}
		mm := m
		c.Entries = append(c.Entries, c02Entry{Text: renderNet(t, m), Model: &mm, List: li})
		if chance(t, "twin", 10) {
			// the same rule with $badfilter
			tw := m
			tw.Extra = append(append([]string{}, m.Extra...), "badfilter")
			// a subnet is the same subnet whatever host bits its spelling carries
			respell := map[string]string{"192.168.1.0/24": "192.168.1.77/24", "192.168.1.77/24": "192.168.1.0/24", "10.0.0.0/8": "10.0.0.1/8", "10.0.0.1/8": "10.0.0.0/8"}
			for _, cl := range []*[]Cli{&tw.CPerm, &tw.CRestr} {
				cp := append([]Cli{}, *cl...)
				for i, x := range cp {
					if alt, ok := respell[x.Val]; ok && x.Kind == "cidr" {
						cp[i].Val = alt
					}
				}
				*cl = cp
			}
			if !inList("badfilter", m.Extra) {
				c.Entries = append(c.Entries, c02Entry{Text: renderNet(t, tw), Model: &tw, List: rapid.IntRange(0, nl-1).Draw(t, "twin-list")})
			}
		}
	}
	caseVariantPair := chance(t, "case-variant-pair", 6)
	if caseVariantPair {
		// too short for the shortcut index, texts equal but for the letter case of the client name
		li := rapid.IntRange(0, nl-1).Draw(t, "cv-list")
		for _, nm := range []string{"Mom", "mom", "MOM"}[:rapid.IntRange(2, 3).Draw(t, "cv-n")] {
			m := NetModel{Pat: "||t.co^", CPerm: []Cli{{"name", nm}}}
			c.Entries = append(c.Entries, c02Entry{Text: "||t.co^$client=" + nm, Model: &m, List: li})
		}
	}
	nq := rapid.IntRange(4, 12).Draw(t, "nreq")
	for i := 0; i < nq; i++ {
		q := Q{Host: true, Hostname: pick(t, "qhost", hostsU)}
		if caseVariantPair && chance(t, "cv-query", 3) {
			c.Reqs = append(c.Reqs, Q{Host: true, Hostname: "t.co", CName: pick(t, "cv-name", []string{"mom", "Mom", "MOM", "dad"})})
		}
		if len(longAliases) > 0 && chance(t, "long-alias", 3) {
			q.Hostname = pick(t, "alias", longAliases)
		}
		if chance(t, "qdnstype", 2) {
			q.DNSType = pick(t, "dnstype", dnsNames)
		}
		var m *NetModel
		if len(c.Entries) > 0 {
			m = c.Entries[rapid.IntRange(0, len(c.Entries)-1).Draw(t, "for-entry")].Model
		}
		genClientFields(t, &q, m)
		if m != nil && len(m.Deny) > 0 && chance(t, "deny-variant-host", 2) {
			q.Hostname = strings.ToLower(hostVariant(t, "deny-variant", pick(t, "deny-of", m.Deny)))
		} else if m != nil && chance(t, "near", 2) {
			q2 := repairQ(t, q, *m)
			if q2.Host {
				q = q2
			}
		}
		c.Reqs = append(c.Reqs, q)
	}
	return c
}

func init() { register("C02", checkC02) }

func TestC02(t *testing.T) {
	runProp(t, "C02", checkC02, nil, part[c02Case]{"dns-lists", scale(5000, 20000), genC02})
}
