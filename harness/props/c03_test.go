package props

import (
	"fmt"
	"sort"
	"strings"
	"testing"

	"github.com/AdguardTeam/urlfilter/rules"
	"pgregory.net/rapid"
)

// C03 — compiled basic patterns accept exactly the documented mask language.

// c03Tokens is the exhaustive token alphabet: the three mask operators, sample
// literals and every regex metacharacter / punctuation class.
var c03Tokens = []string{"*", "^", "|", "a", "B", "1", ".", "+", "?", "$", "{", "}", "(", ")", "[", "]", "/", "\\",
	"-", "_", "%", ":", "=", "&", "~", ",", "#", "@", "!", "'", "\"", ";", "<", ">", " "}

// reduced alphabet for the deepest exhaustive level
var c03TokensReduced = []string{"*", "^", "|", "a", "B", ".", "+", "?", "$", "{", "}", "(", ")", "[", "]", "/", "\\", "%", "_"}

// c03Idioms are regex idioms used as literals inside masks (sampled part).
var c03Idioms = []string{"a{2}", "b{1,3}", "(x|y)", "[a-c]", "c+", "d?", "\\d", ".*x", "^a$", "a|b", "x{0}", "\\.", "[^/]", "(?i)", "\\x41",
	"example", "org", "http", "://", "ads", "EXAMPLE", "a.b", "/", "x_y-1", "%2F", "track\\$id=", "\\$", "adzone"}

type c03Case struct {
	Pattern    string   `json:"pattern"`
	MC         bool     `json:"match_case,omitempty"`
	Strings    []string `json:"strings,omitempty"`
	BoundedLen int      `json:"bounded_len,omitempty"` // additionally all strings up to this length over a pattern-derived alphabet
	// Variant: how the options are written (0: $domain first; 1..3: an exception with document-level
	// modifiers before or after $match-case) — the language of the mask does not depend on it
	Variant int `json:"option_variant,omitempty"`
}

func c03RuleText(c c03Case) string {
	mc := ""
	if c.MC {
		mc = "match-case"
	}
	join := func(xs ...string) string {
		var out []string
		for _, x := range xs {
			if x != "" {
				out = append(out, x)
			}
		}
		return strings.Join(out, ",")
	}
	switch c.Variant {
	case 1:
		return "@@" + c.Pattern + "$" + join(mc, "document", "domain=example.org")
	case 2:
		return "@@" + c.Pattern + "$" + join("elemhide", mc, "domain=example.org", "urlblock")
	case 3:
		return c.Pattern + "$" + join(mc, "domain=example.org|example.com", "ctag=~nosuchtag")
	}
	return c.Pattern + "$" + join("domain=example.org", mc)
}

// c03BoundedStrings enumerates all strings up to maxLen over the bytes of the
// pattern (letters in both cases) plus a few fixed characters; for patterns
// anchored with || each string is also tried behind scheme prefixes.
func c03BoundedStrings(p string, maxLen int, startURL bool) []string {
	set := map[byte]bool{'a': true, '/': true, '.': true, '%': true}
	for i := 0; i < len(p); i++ {
		c := p[i]
		if c == '*' || c == '^' || c == '|' {
			continue
		}
		set[c] = true
		if c >= 'a' && c <= 'z' {
			set[c-32] = true
		} else if c >= 'A' && c <= 'Z' {
			set[c+32] = true
		}
	}
	if strings.ContainsAny(p, "^") {
		set[':'] = true
		set['_'] = true
	}
	var alpha []byte
	for c := range set {
		alpha = append(alpha, c)
	}
	sort.Slice(alpha, func(i, j int) bool { return alpha[i] < alpha[j] })
	var base []string
	var rec func(cur []byte)
	rec = func(cur []byte) {
		base = append(base, string(cur))
		if len(cur) == maxLen {
			return
		}
		for _, c := range alpha {
			rec(append(cur[:len(cur):len(cur)], c))
		}
	}
	rec(nil)
	if !startURL {
		return base
	}
	out := append([]string{}, base...)
	for _, pre := range []string{"http://", "https://x.", "ws://a.b.", "wss://", "ftp://", "HTTP://", "http://x/", "http://-_.", "http:/"} {
		for _, b := range base {
			out = append(out, pre+b)
		}
	}
	return out
}

func checkC03(c c03Case, rec *Rec) *Violation {
	const id = "C03"
	if !isMaskPattern(c.Pattern) {
		rec.Label("skipped:not-a-mask")
		return nil
	}
	txt := c03RuleText(c)
	rule, err := rules.NewNetworkRule(txt, 1)
	if err != nil {
		return viol(id, "C03:parse", "mask rule %q rejected: %v", txt, err)
	}
	// By construction the options delimiter is the last '$' of the text, so the
	// rule's pattern is c.Pattern (with a trailing "/*" rewritten to "^"); the
	// reference is always computed from c.Pattern itself.
	ref := parseRefMask(c.Pattern)
	re, status := rule.VerifRegexp()
	if status == -1 {
		return viol(id, "C03:does-not-compile", "mask pattern %q (match-case=%v) translates to an invalid regular expression", c.Pattern, c.MC)
	}
	strs := c.Strings
	if c.BoundedLen > 0 {
		strs = append(append([]string{}, strs...), c03BoundedStrings(c.Pattern, c.BoundedLen, ref.startURL)...)
	}
	acc, rej := 0, 0
	for _, u := range strs {
		want := ref.match(u, c.MC)
		if want {
			acc++
		} else {
			rej++
		}
		// 1. the prepared matcher itself (attribution: pattern translation)
		var got bool
		if status == 0 {
			got = true
		} else {
			got = re.MatchString(u)
		}
		if got != want {
			sig := "C03:accepts-outside-language"
			if want {
				sig = "C03:rejects-inside-language"
			}
			return viol(id, sig, "pattern %q match-case=%v string %q: compiled matcher (%v) says %v, mask reference says %v",
				c.Pattern, c.MC, u, re, got, want)
		}
		// 2. the public API
		// (rules with document-level modifiers apply to document requests only)
		typ := rules.TypeOther
		if c.Variant == 1 || c.Variant == 2 {
			typ = rules.TypeDocument
		}
		if m := rule.Match(rules.NewRequest(u, "http://example.org/", typ)); m != want {
			return viol(id, "C03:match-api-differs", "pattern %q match-case=%v string %q: Match=%v, mask reference=%v (shortcut %q)",
				c.Pattern, c.MC, u, m, want, rule.Shortcut)
		}
	}
	rec.LabelN("strings", len(strs))
	rec.LabelN("strings-accepted", acc)
	if strings.ContainsAny(c.Pattern, "*^|") && acc > 0 && rej > 0 {
		rec.NonTrivial(fmt.Sprint(c.MC)+c.Pattern, map[string]any{"pattern": c.Pattern, "match_case": c.MC, "strings": len(strs), "accepted": acc})
	} else if acc > 0 && rej > 0 {
		rec.Label("both-outcomes-without-operator")
	}
	return nil
}

// c03Derive realises the token list of a pattern as a string, with mutations.
func c03Derive(t *rapid.T, p string, mc bool) string {
	m := parseRefMask(p)
	var u strings.Builder
	if m.startURL || chance(t, "scheme", 3) {
		u.WriteString(pick(t, "sch", []string{"http://", "https://", "ws://", "wss://", "ftp://", "HTTP://", "http:/",
			"https://evil.test/r?u=ws://", "https://evil.test/news://", "https://evil.test/?u=http://", "xhttp://", "awss://", "https://e.test/#https://"}))
		if chance(t, "subdomain", 2) {
			u.WriteString(pick(t, "sub", []string{"www.", "a.b.", "x_y-1.", "A.", "a..", ".", "a/b."}))
		}
	} else if !m.startA && chance(t, "junk-front", 2) {
		u.WriteString(pick(t, "junk", []string{"zz", "/", "a|"}))
	}
	for _, tk := range m.toks {
		switch tk.kind {
		case 'L':
			c := tk.c
			switch rapid.IntRange(0, 11).Draw(t, "lit") {
			case 0:
				if c >= 'a' && c <= 'z' {
					c -= 32
				} else if c >= 'A' && c <= 'Z' {
					c += 32
				}
			case 1:
				c = "aB1./"[rapid.IntRange(0, 4).Draw(t, "subst")]
			case 2:
				continue // dropped byte
			case 3:
				u.WriteByte(c) // doubled byte
			}
			u.WriteByte(c)
		case '*':
			u.WriteString(pick(t, "star", []string{"", "a", "/x?y", "B1", "aa"}))
		case '^':
			u.WriteString(pick(t, "sep", []string{"/", ":", "?", "=", "&", "_", "-", ".", "%", "a", "1", " ", "", "|", "^", "~", "$", "//"}))
		}
	}
	if !m.endA || chance(t, "junk-end", 4) {
		u.WriteString(pick(t, "tail", []string{"", "", "/", "zz", "|"}))
	}
	return u.String()
}

func genC03(t *rapid.T) c03Case {
	var sb strings.Builder
	switch rapid.IntRange(0, 3).Draw(t, "prefix") {
	case 0:
		sb.WriteString("||")
	case 1:
		sb.WriteString("|")
	}
	k := rapid.IntRange(2, 8).Draw(t, "ntok")
	for i := 0; i < k; i++ {
		if chance(t, "idiom", 2) {
			sb.WriteString(pick(t, "idiom-v", c03Idioms))
		} else {
			sb.WriteString(pick(t, "tok", c03Tokens))
		}
	}
	if chance(t, "endpipe", 4) {
		sb.WriteString("|")
	}
	if chance(t, "slashstar", 10) {
		sb.WriteString("/*")
	}
	c := c03Case{Pattern: sb.String(), MC: chance(t, "mc", 3)}
	if chance(t, "option-variant", 4) {
		c.Variant = rapid.IntRange(1, 3).Draw(t, "variant")
	}
	n := rapid.IntRange(10, 30).Draw(t, "nstr")
	for i := 0; i < n; i++ {
		c.Strings = append(c.Strings, c03Derive(t, c.Pattern, c.MC))
	}
	return c
}

func c03Enumerate(tokens []string, length int, f func(p string) bool) {
	var rec func(cur string, n int) bool
	rec = func(cur string, n int) bool {
		if n == length {
			for _, pre := range []string{"", "|", "||"} {
				for _, suf := range []string{"", "|", "/*"} {
					if !f(pre + cur + suf) {
						return false
					}
				}
			}
			return true
		}
		for _, tk := range tokens {
			if !rec(cur+tk, n+1) {
				return false
			}
		}
		return true
	}
	rec("", 0)
}

func init() { register("C03", checkC03) }

func TestC03(t *testing.T) {
	exhaustive := func(rec *Rec) *replayFile {
		var failed *replayFile
		idx := 0
		run := func(tokens []string, length, bounded int) bool {
			ok := true
			c03Enumerate(tokens, length, func(p string) bool {
				idx++
				if idx%shards() != shard() {
					return true
				}
				for _, mc := range []bool{false, true} {
					c := c03Case{Pattern: p, MC: mc, BoundedLen: bounded}
					rec.Eval()
					if v := rec.filter(safeCheck("C03", checkC03, c, rec)); v != nil {
						failed = exhaustiveFail("C03", c, v)
						ok = false
						return false
					}
				}
				return true
			})
			return ok
		}
		type lvl struct {
			tokens          []string
			length, bounded int
		}
		levels := []lvl{{c03Tokens, 1, 4}, {c03Tokens, 2, 3}}
		if tier() == "thorough" {
			levels = []lvl{{c03Tokens, 1, 5}, {c03Tokens, 2, 4}, {c03Tokens, 3, 3}, {c03TokensReduced, 4, 2}}
		}
		for _, l := range levels {
			if !run(l.tokens, l.length, l.bounded) {
				return failed
			}
			rec.Label(fmt.Sprintf("exhaustive_patterns_len%d_over_%d_tokens_strings_le_%d", l.length, len(l.tokens), l.bounded))
		}
		return nil
	}
	runProp(t, "C03", checkC03, exhaustive, part[c03Case]{"sampled-patterns", scale(4000, 20000), genC03})
}
