package props

import (
	"net/netip"
	"regexp"
	"sort"
	"strings"
	"sync"

	"github.com/AdguardTeam/urlfilter"
	"github.com/AdguardTeam/urlfilter/rules"
	"golang.org/x/net/publicsuffix"
	"pgregory.net/rapid"
)

// ---------------------------------------------------------------------------
// vocabulary (DESIGN.md 3.1): small and collision-rich

var typeBits = map[string]rules.RequestType{
	"document": rules.TypeDocument, "subdocument": rules.TypeSubdocument, "script": rules.TypeScript,
	"stylesheet": rules.TypeStylesheet, "object": rules.TypeObject, "image": rules.TypeImage,
	"xmlhttprequest": rules.TypeXmlhttprequest, "media": rules.TypeMedia, "font": rules.TypeFont,
	"websocket": rules.TypeWebsocket, "ping": rules.TypePing, "other": rules.TypeOther,
}

// content types that can be written as a modifier
var typeNames = []string{"script", "image", "stylesheet", "subdocument", "xmlhttprequest", "other", "ping", "font", "media", "object", "websocket"}

// request types a request can carry
var reqTypeNames = []string{"document", "script", "image", "stylesheet", "subdocument", "xmlhttprequest", "other", "ping", "font", "media", "object", "websocket"}

var dnsT = map[string]uint16{"A": 1, "AAAA": 28, "CNAME": 5, "TXT": 16, "HTTPS": 65, "MX": 15, "PTR": 12}
var dnsNames = []string{"A", "AAAA", "CNAME", "TXT", "HTTPS", "MX", "PTR"}

var baseDomains = []string{"example.org", "google.com", "google.co.uk", "notgoogle.com", "a.com", "b.net",
	"city.kobe.jp", "foo.kobe.jp", "x.github.io", "www.ck", "t.ck", "example.local", "sub.example.org",
	"evil.example.org.attacker.com", "ads.example.com", "cdn1.a.com", "x-y.net", "blogspot.com", "me.blogspot.com",
	"localhost", "com", // single labels: a source host without a dot, a bare TLD
	"Example.ORG", "CDN.Example.org"} // letter case is kept as written on both sides
var wildDomains = []string{"google.*", "example.*", "a.*", "kobe.*", "github.*", "x.google.*"}
var wildSuffixes = []string{"com", "co.uk", "local", "github.io", "org", "kobe.jp", "x.kobe.jp", "net", "ck", "www.ck", "blogspot.com", "de"}
var ctagVocab = []string{"phone", "pc", "user_child", "a", "b", "zz", "device_tv", "0"}
var clientNames = []string{"Frank's laptop", "Kids", "a|b", "x, y", "dead.beef", "abc", "10.0.0.0/8x", "My \"PC\"", "pc", "PC", "kids", "::g", "1.2.3.4.5", "a b", "it's \"q\"", "alice", "Bob", "Zed", "carol",
	"Müller", "Фрэнк", "子供のPC", // client names are free text in any script
	"Kids ", " guest laptop", "\ttabbed"} // ... with blanks at their edges, too (always written in quotes)
var clientIPs = []string{"1.2.3.4", "1.2.3.5", "10.0.0.1", "10.255.255.255", "11.0.0.0", "192.168.1.1", "192.168.1.255", "192.168.2.1",
	"::1", "fe01::1", "fe01:0:0:1::1", "2001:db8::1", "2001:db9::1", "0.0.0.0", "255.255.255.255", "::",
	"::ffff:1.2.3.4", "::ffff:192.168.1.1", // IPv4-mapped: an address equals itself, whatever its form
	"2001:0db8:0000:0000:0000:0000:192.168.100.100", "0000:0000:0000:0000:0000:ffff:192.168.100.200"} // the longest spellings (45 bytes)
var clientCIDRs = []string{"10.0.0.0/8", "10.0.0.1/8", "192.168.1.0/24", "192.168.1.77/24", "1.2.3.4/32", "1.2.3.4/31", "1.2.3.4/30",
	"fe01::/64", "fe01::/16", "::/0", "0.0.0.0/0", "2001:db8::/32", "2001:db8::5/33", "128.0.0.0/1", "::1/128"}

func pick[T any](t *rapid.T, label string, xs []T) T {
	return xs[rapid.IntRange(0, len(xs)-1).Draw(t, label)]
}

// rare is for expensive families: rapid favours the bounds of a range (chance
// fires in 10-16 % of the draws whatever oneIn is), an interior value is drawn
// less often than 1/oneIn.
func rare(t *rapid.T, label string, oneIn int) bool {
	return rapid.IntRange(0, oneIn-1).Draw(t, label) == oneIn/2
}

func chance(t *rapid.T, label string, oneIn int) bool {
	return rapid.IntRange(0, oneIn-1).Draw(t, label) == 0
}

// subsetOf draws 1..max distinct elements.
func subsetOf(t *rapid.T, label string, xs []string, max int) []string {
	if max > len(xs) {
		max = len(xs)
	}
	n := rapid.IntRange(1, max).Draw(t, label+"_n")
	p := rapid.Permutation(xs).Draw(t, label)
	return append([]string{}, p[:n]...)
}

func shuffled(t *rapid.T, label string, xs []string) []string {
	if len(xs) < 2 {
		return append([]string{}, xs...)
	}
	return rapid.Permutation(xs).Draw(t, label)
}

// hostVariant builds a host name confusable with domain d.
func hostVariant(t *rapid.T, label string, d string) string {
	switch rapid.IntRange(0, 11).Draw(t, label) {
	case 10:
		// an earlier label ends with the first label of d: mygoogle.google.com
		first := d
		if i := strings.IndexByte(d, '.'); i > 0 {
			first = d[:i]
		}
		return "my" + first + "." + d
	case 11:
		// the name occurs again behind the real domain: google.com.google.com
		return d + "." + d
	case 0, 1:
		return d
	case 2:
		return "sub." + d
	case 3:
		return "pre" + d
	case 4:
		return d + "x"
	case 5:
		return "a.b." + d
	case 6:
		return "x." + d + ".y.not" + d
	case 7:
		if i := strings.IndexByte(d, '.'); i > 0 {
			return d[i+1:] // parent
		}
		return d
	case 8:
		return "x-" + d
	}
	return pick(t, label+"_base", baseDomains)
}

// ---------------------------------------------------------------------------
// rule model

// Cli is one $client value.
type Cli struct {
	Kind string `json:"kind"` // name | ip | cidr
	Val  string `json:"val"`
}

// NetModel is a network rule as a value.  The oracle evaluates the model; the
// code under test parses a rendering of it.
type NetModel struct {
	Exc     bool     `json:"exc,omitempty"`
	Pat     string   `json:"pat"`
	TP      int      `json:"tp,omitempty"` // 0 none, 1 third-party, 2 first-party
	MC      bool     `json:"mc,omitempty"`
	TIncl   []string `json:"tincl,omitempty"`
	TExcl   []string `json:"texcl,omitempty"`
	DPerm   []string `json:"dperm,omitempty"`
	DRestr  []string `json:"drestr,omitempty"`
	Deny    []string `json:"deny,omitempty"`
	QPerm   []string `json:"qperm,omitempty"`
	QRestr  []string `json:"qrestr,omitempty"`
	GPerm   []string `json:"gperm,omitempty"`
	GRestr  []string `json:"grestr,omitempty"`
	CPerm   []Cli    `json:"cperm,omitempty"`
	CRestr  []Cli    `json:"crestr,omitempty"`
	Extra   []string `json:"extra,omitempty"` // flag options without a value: important, badfilter, elemhide, ...
	Rewrite *string  `json:"rewrite,omitempty"`
}

type modelOpts struct {
	patterns  []string
	noBrowser bool // no $domain/third-party/match-case/content-type (DNS-applicable only)
	modChance int  // 1 in N for each modifier group (default 3)
	noClient  bool
}

var defaultPatterns = []string{"||example.org^", "||google.com^", "|https://a.com/", "example", "/ads/x", "a.com|", "://1.2.",
	"||1.2.3.4^", "google", "ab", "*", "||", "||sub.example.org^", "|http://", "example.org/ads/*", "^ads^", "||example.org^*x", "GOOGLE",
	"/ad-server.", "/sub.", "/example.", "/ad_server.",
	// regular expressions whose longest literal has capital letters
	"/Banner[0-9]/", "/^Tracker[0-9]+\\.example/", "/Exampl[e]\\.ORG/"}

func genNetModel(t *rapid.T, o modelOpts) NetModel {
	var m NetModel
	pats := o.patterns
	if pats == nil {
		pats = defaultPatterns
	}
	mc := o.modChance
	if mc == 0 {
		mc = 3
	}
	m.Exc = chance(t, "exc", 5)
	m.Pat = pick(t, "pat", pats)
	if !o.noBrowser {
		m.MC = chance(t, "mc", 6)
		if chance(t, "tp?", mc) {
			m.TP = rapid.IntRange(1, 2).Draw(t, "tp")
		}
		if chance(t, "types?", mc) {
			for _, ty := range subsetOf(t, "types", typeNames, 4) {
				if chance(t, "texcl", 3) {
					m.TExcl = append(m.TExcl, ty)
				} else {
					m.TIncl = append(m.TIncl, ty)
				}
			}
			if len(m.TIncl) > 0 && chance(t, "types-included-and-excluded", 8) {
				// every included type is excluded as well ($script,~script): the rule matches no type at all
				for _, ty := range m.TIncl {
					if !inList(ty, m.TExcl) {
						m.TExcl = append(m.TExcl, ty)
					}
				}
			} else if len(m.TIncl) > 0 && len(m.TExcl) > 0 && chance(t, "one-type-both-ways", 8) {
				m.TExcl = append(m.TExcl, m.TIncl[0])
			}
		}
		if chance(t, "domain?", 2) {
			n := rapid.IntRange(1, 6).Draw(t, "ndom")
			seen := map[string]bool{}
			for i := 0; i < n; i++ {
				d := pick(t, "dom", baseDomains)
				if chance(t, "tiny-dom", 6) {
					d = tinyDomain(t)
				} else if chance(t, "wild", 4) {
					d = pick(t, "wilddom", wildDomains)
				} else if chance(t, "subdom", 4) {
					d = "sub." + d
				}
				if seen[d] {
					continue
				}
				seen[d] = true
				if chance(t, "drestr", 3) {
					m.DRestr = append(m.DRestr, d)
				} else {
					m.DPerm = append(m.DPerm, d)
				}
			}
		}
	}
	if chance(t, "deny?", mc+1) {
		m.Deny = subsetOf(t, "deny", baseDomains, 3)
		if chance(t, "deny-tiny", 5) {
			m.Deny = append(m.Deny, tinyDomain(t))
		}
		if chance(t, "deny-wild", 5) {
			m.Deny = append(m.Deny, pick(t, "deny-wilddom", wildDomains))
		}
	}
	if chance(t, "dnstype?", mc+1) {
		for _, q := range subsetOf(t, "dnstypes", dnsNames, 3) {
			if chance(t, "qrestr", 3) {
				m.QRestr = append(m.QRestr, q)
			} else {
				m.QPerm = append(m.QPerm, q)
			}
		}
	}
	if chance(t, "ctag?", mc+1) {
		for _, g := range subsetOf(t, "ctags", ctagVocab, 4) {
			if chance(t, "grestr", 3) {
				m.GRestr = append(m.GRestr, g)
			} else {
				m.GPerm = append(m.GPerm, g)
			}
		}
	}
	if !o.noClient && chance(t, "client?", mc) {
		n := rapid.IntRange(1, 6).Draw(t, "ncli")
		seen := map[Cli]bool{}
		for i := 0; i < n; i++ {
			var c Cli
			switch rapid.IntRange(0, 2).Draw(t, "clikind") {
			case 0:
				c = Cli{"name", pick(t, "cliname", clientNames)}
			case 1:
				c = Cli{"ip", pick(t, "cliip", clientIPs)}
			case 2:
				c = Cli{"cidr", pick(t, "clicidr", clientCIDRs)}
			}
			if seen[c] {
				continue
			}
			seen[c] = true
			if chance(t, "crestr", 3) {
				m.CRestr = append(m.CRestr, c)
			} else {
				m.CPerm = append(m.CPerm, c)
			}
		}
	}
	return m
}

// tinyDomain draws a domain over a very small alphabet, so that two draws are
// often textual prefixes, suffixes or extensions of each other without sitting
// on a label boundary (b.com / ab.com / abb.com / b.ab.com).
func tinyDomain(t *rapid.T) string {
	labels := []string{"a", "b", "ab", "bb", "abb", "a-b"}
	d := pick(t, "tiny-label", labels)
	if chance(t, "tiny-two-labels", 3) {
		d = pick(t, "tiny-label2", labels) + "." + d
	}
	return d + "." + pick(t, "tiny-tld", []string{"com", "com", "org", "co.uk"})
}

// needsRestriction reports whether the parser demands a restriction modifier
// for this pattern ("too wide" rules).
func wideMask(p string) bool {
	return p == "||" || p == "|" || p == "*" || p == "" || len(p) < 3
}

func (m NetModel) hasRestriction() bool {
	return len(m.DPerm)+len(m.DRestr)+len(m.Deny)+len(m.QPerm)+len(m.QRestr)+len(m.GPerm)+len(m.GRestr)+len(m.CPerm)+len(m.CRestr) > 0
}

func (m NetModel) modifierCount() int {
	n := 0
	if m.TP != 0 {
		n++
	}
	if m.MC {
		n++
	}
	n += len(m.TIncl) + len(m.TExcl) + len(m.Extra)
	for _, g := range [][]string{append(append([]string{}, m.DPerm...), m.DRestr...), m.Deny,
		append(append([]string{}, m.QPerm...), m.QRestr...), append(append([]string{}, m.GPerm...), m.GRestr...)} {
		if len(g) > 0 {
			n++
		}
	}
	if len(m.CPerm)+len(m.CRestr) > 0 {
		n++
	}
	return n
}

func encClient(t *rapid.T, c Cli) string {
	if c.Kind != "name" {
		return c.Val
	}
	v := c.Val
	needQuote := strings.ContainsAny(v, " \t'\"") || chance(t, "quote", 3)
	v = strings.ReplaceAll(v, ",", "\\,")
	v = strings.ReplaceAll(v, "|", "\\|")
	if needQuote {
		q := "'"
		if strings.Contains(v, "'") && !strings.Contains(v, "\"") {
			q = "\""
		} else if !strings.Contains(v, "'") && !strings.Contains(v, "\"") && chance(t, "dq", 2) {
			q = "\""
		}
		v = strings.ReplaceAll(v, q, "\\"+q)
		return q + v + q
	}
	return v
}

// renderNet writes the rule text with a generated order of modifiers and of
// the values inside each modifier.
func renderNet(t *rapid.T, m NetModel) string {
	var mods []string
	switch m.TP {
	case 1:
		mods = append(mods, pick(t, "tpname", []string{"third-party", "~first-party"}))
	case 2:
		mods = append(mods, pick(t, "fpname", []string{"~third-party", "first-party"}))
	}
	if m.MC {
		mods = append(mods, "match-case")
	}
	mods = append(mods, m.TIncl...)
	for _, ty := range m.TExcl {
		mods = append(mods, "~"+ty)
	}
	join := func(label string, perm, restr []string) string {
		var v []string
		v = append(v, perm...)
		for _, x := range restr {
			v = append(v, "~"+x)
		}
		return strings.Join(shuffled(t, label, v), "|")
	}
	if len(m.DPerm)+len(m.DRestr) > 0 {
		mods = append(mods, "domain="+join("domorder", m.DPerm, m.DRestr))
	}
	if len(m.Deny) > 0 {
		mods = append(mods, "denyallow="+join("denyorder", m.Deny, nil))
	}
	if len(m.QPerm)+len(m.QRestr) > 0 {
		mods = append(mods, "dnstype="+join("qorder", m.QPerm, m.QRestr))
	}
	if len(m.GPerm)+len(m.GRestr) > 0 {
		mods = append(mods, "ctag="+join("gorder", m.GPerm, m.GRestr))
	}
	if len(m.CPerm)+len(m.CRestr) > 0 {
		var p, q []string
		for _, c := range m.CPerm {
			p = append(p, encClient(t, c))
		}
		for _, c := range m.CRestr {
			q = append(q, encClient(t, c))
		}
		mods = append(mods, "client="+join("corder", p, q))
	}
	mods = append(mods, m.Extra...)
	if m.Rewrite != nil {
		if *m.Rewrite == "" && chance(t, "bare-dnsrewrite", 2) {
			mods = append(mods, "dnsrewrite")
		} else {
			mods = append(mods, "dnsrewrite="+*m.Rewrite)
		}
	}
	s := m.Pat
	if m.Exc {
		s = "@@" + s
	}
	if len(mods) > 0 {
		s += "$" + strings.Join(shuffled(t, "modorder", mods), ",")
	}
	return s
}

// ---------------------------------------------------------------------------
// request model

// Q is a request as a value.
type Q struct {
	Host     bool     `json:"host,omitempty"` // host-name request (DNS style)
	URL      string   `json:"url,omitempty"`
	Src      string   `json:"src,omitempty"`
	Typ      string   `json:"typ,omitempty"`
	Hostname string   `json:"hostname,omitempty"`
	DNSType  string   `json:"dnstype,omitempty"`
	CName    string   `json:"cname,omitempty"`
	CIP      string   `json:"cip,omitempty"`
	Tags     []string `json:"tags,omitempty"`
	// CosmeticOpt: (host-name queries in histories) the option bits for the cosmetic query, 0 = all
	CosmeticOpt int `json:"cosmetic_opt,omitempty"`
}

func mkReq(q Q) *rules.Request {
	var req *rules.Request
	if q.Host {
		req = rules.NewRequestForHostname(q.Hostname)
		if q.DNSType != "" {
			req.DNSType = dnsT[q.DNSType]
		}
	} else {
		req = rules.NewRequest(q.URL, q.Src, typeBits[q.Typ])
	}
	req.ClientName = q.CName
	if q.CIP != "" {
		req.ClientIP = netip.MustParseAddr(q.CIP)
	}
	req.SortedClientTags = append([]string(nil), q.Tags...)
	return req
}

func mkDNSReq(q Q) *urlfilter.DNSRequest {
	dr := &urlfilter.DNSRequest{Hostname: q.Hostname, ClientName: q.CName, SortedClientTags: append([]string(nil), q.Tags...)}
	if q.DNSType != "" {
		dr.DNSType = dnsT[q.DNSType]
	}
	if q.CIP != "" {
		dr.ClientIP = netip.MustParseAddr(q.CIP)
	}
	return dr
}

var urlTails = []string{"", "/", "/ads/x.js", ":8080/example?google", "/AB", "/ads/", "/path?q=example.org", "/a.com", "/ads^x", "/banner7.gif", "/BANNER7", "/Äpfel/x", "/q/РЕКЛАМА.gif", "/price$list", "/price\\$list?cost\\$", "/cost$"}

// genClientFields fills the client part of a request, steered towards the
// rule's own values and near misses when a model is given.
func genClientFields(t *rapid.T, q *Q, m *NetModel) {
	if chance(t, "cname?", 2) {
		q.CName = pick(t, "cname", clientNames)
		if m != nil && chance(t, "cname-from-rule", 2) {
			for _, c := range append(append([]Cli{}, m.CPerm...), m.CRestr...) {
				if c.Kind == "name" {
					q.CName = c.Val
					break
				}
			}
		}
	}
	if chance(t, "cip?", 2) {
		q.CIP = pick(t, "cip", clientIPs)
	}
	if chance(t, "tags?", 2) {
		q.Tags = subsetOf(t, "tags", ctagVocab, 3)
		sort.Strings(q.Tags)
	}
}

// genQ draws a request; when m is given the request is built from the rule's
// ingredients so that modifiers are actually decided.
func genQ(t *rapid.T, m *NetModel) Q {
	var q Q
	q.Host = chance(t, "hostreq", 3)
	hosts := []string{"example.org", "www.example.org", "google.com", "a.com", "1.2.3.4", "1.2.9.9", "notexample.org",
		"EXAMPLE.org", "sub.example.org", "ads.example.com", "google.co.uk", "b.net", "x.a.com", "abc.de", "dead.beef", "1.2.3", "ad-server.example.org"}
	h := pick(t, "host", hosts)
	if m != nil && len(m.Deny) > 0 && chance(t, "deny-host", 2) {
		h = hostVariant(t, "denyvariant", pick(t, "denyd", m.Deny))
	}
	if q.Host {
		q.Hostname = strings.ToLower(h)
		if chance(t, "dnstype?", 2) {
			q.DNSType = pick(t, "dnstype", dnsNames)
			if m != nil && len(m.QPerm)+len(m.QRestr) > 0 && chance(t, "dnstype-from-rule", 2) {
				q.DNSType = pick(t, "dnstype-r", append(append([]string{}, m.QPerm...), m.QRestr...))
			}
		}
	} else {
		q.URL = pick(t, "scheme", []string{"http://", "https://", "ws://"}) + h + pick(t, "tail", urlTails)
		var pool []string
		if m != nil {
			pool = append(pool, m.DPerm...)
			pool = append(pool, m.DRestr...)
		}
		if len(pool) > 0 && !chance(t, "src-unrelated", 4) {
			d := pick(t, "srcdom", pool)
			if strings.HasSuffix(d, ".*") {
				d = d[:len(d)-2] + "." + pick(t, "wildsuffix", wildSuffixes)
			}
			q.Src = "https://" + hostVariant(t, "srcvariant", d) + pick(t, "srctail", []string{"", "/", "/p?q"})
		} else if !chance(t, "nosrc", 3) {
			q.Src = "http://" + pick(t, "srcbase", baseDomains) + "/"
			if chance(t, "src-same", 3) {
				q.Src = "http://" + h + "/"
			}
		}
		q.Typ = pick(t, "type", reqTypeNames)
		if m != nil && len(m.TIncl)+len(m.TExcl) > 0 && chance(t, "type-from-rule", 2) {
			q.Typ = pick(t, "type-r", append(append([]string{}, m.TIncl...), m.TExcl...))
		}
	}
	genClientFields(t, &q, m)
	if m != nil {
		// steer the client address towards the rule's nets
		all := append(append([]Cli{}, m.CPerm...), m.CRestr...)
		if len(all) > 0 && chance(t, "cip-from-rule", 2) {
			c := pick(t, "cli-r", all)
			switch c.Kind {
			case "ip":
				q.CIP = c.Val
			case "cidr":
				p := netip.MustParsePrefix(c.Val)
				q.CIP = p.Addr().String()
				if chance(t, "cidr-next", 2) {
					q.CIP = p.Masked().Addr().Next().String()
				}
			case "name":
				q.CName = c.Val
			}
		}
		tagsAll := append(append([]string{}, m.GPerm...), m.GRestr...)
		if len(tagsAll) > 0 && chance(t, "tags-from-rule", 2) {
			q.Tags = subsetOf(t, "tags-r", tagsAll, 2)
			if chance(t, "tags-extra", 2) {
				q.Tags = append(q.Tags, pick(t, "tag-extra", ctagVocab))
			}
			sort.Strings(q.Tags)
			q.Tags = uniqSorted(q.Tags)
		}
	}
	return q
}

func uniqSorted(xs []string) []string {
	var out []string
	for i, x := range xs {
		if i == 0 || x != xs[i-1] {
			out = append(out, x)
		}
	}
	return out
}

// ---------------------------------------------------------------------------
// reference evaluation of modifiers (DESIGN.md 3.4)

func refSubOfAny(domain string, list []string) bool {
	for _, d := range list {
		if strings.HasSuffix(d, ".*") {
			name := d[:len(d)-2]
			if domain == "" {
				continue
			}
			tld, icann := publicsuffix.PublicSuffix(domain)
			if tld != "" && icann && (domain == name+"."+tld || strings.HasSuffix(domain, "."+name+"."+tld)) {
				return true
			}
		} else if domain == d || strings.HasSuffix(domain, "."+d) {
			return true
		}
	}
	return false
}

func refRegDomain(h string) string {
	d, err := publicsuffix.EffectiveTLDPlusOne(h)
	if err != nil {
		return h
	}
	return d
}

// refHostOf extracts the host of the well-formed URLs the generators build.
func refHostOf(u string) string {
	i := strings.Index(u, "://")
	if i < 0 {
		return ""
	}
	rest := u[i+3:]
	if j := strings.IndexAny(rest, "/:?"); j >= 0 {
		rest = rest[:j]
	}
	return rest
}

func inList[T comparable](x T, xs []T) bool {
	for _, y := range xs {
		if x == y {
			return true
		}
	}
	return false
}

func refCliContains(list []Cli, name, ip string) bool {
	for _, c := range list {
		switch c.Kind {
		case "name":
			if name != "" && c.Val == name {
				return true
			}
		case "ip":
			if ip != "" && netip.MustParseAddr(c.Val) == netip.MustParseAddr(ip) {
				return true
			}
		case "cidr":
			if ip != "" {
				p := netip.MustParsePrefix(c.Val).Masked()
				if p.Contains(netip.MustParseAddr(ip)) {
					return true
				}
			}
		}
	}
	return false
}

// refTarget is the string the pattern is applied to.
func refTarget(pat string, q Q) string {
	if !q.Host {
		return q.URL
	}
	p := pat
	useHost := true
	if strings.HasPrefix(p, "||") || strings.HasPrefix(p, "http://") || strings.HasPrefix(p, "https://") || strings.HasPrefix(p, "://") {
		useHost = false
	} else if len(p) > 3 && p[0] == '/' && p[len(p)-1] == '.' {
		useHost = false
		for i := 1; i < len(p)-1; i++ {
			c := p[i]
			if !((c >= 'a' && c <= 'z') || (c >= 'A' && c <= 'Z') || (c >= '0' && c <= '9') || c == '.' || c == '-') {
				useHost = true
			}
		}
	}
	if useHost {
		return q.Hostname
	}
	return "http://" + q.Hostname
}

// refMatch evaluates the model on the request: pattern on the proper target
// and every modifier.  why names the first failing conjunct.
func refMatch(m NetModel, q Q) (ok bool, why string) {
	hostname := refHostOf(q.URL)
	srcHost := refHostOf(q.Src)
	if q.Host {
		hostname = q.Hostname
		srcHost = ""
	}
	third := false
	if !q.Host && srcHost != "" && refRegDomain(srcHost) != refRegDomain(hostname) {
		third = true
	}
	if m.TP == 1 && !third {
		return false, "third-party"
	}
	if m.TP == 2 && third {
		return false, "first-party"
	}
	typ := q.Typ
	if q.Host {
		typ = "document"
	}
	docOnly := false
	for _, e := range m.Extra {
		switch e {
		case "elemhide", "generichide", "genericblock", "jsinject", "urlblock", "content", "extension", "document", "popup":
			docOnly = true
		}
	}
	if docOnly {
		// rules of these kinds apply to documents only (the include list is
		// replaced by {document})
		if typ != "document" {
			return false, "document-only"
		}
	} else if len(m.TIncl) > 0 && !inList(typ, m.TIncl) {
		return false, "type-include"
	}
	if inList(typ, m.TExcl) {
		return false, "type-exclude"
	}
	if len(m.Deny) > 0 {
		if q.Host {
			if _, err := netip.ParseAddr(hostname); err == nil {
				return false, "denyallow-ip"
			}
		}
		if refSubOfAny(hostname, m.Deny) {
			return false, "denyallow"
		}
	}
	if refSubOfAny(srcHost, m.DRestr) {
		return false, "domain-restricted"
	}
	if len(m.DPerm) > 0 && !refSubOfAny(srcHost, m.DPerm) {
		return false, "domain-permitted"
	}
	dt := ""
	if q.Host {
		dt = q.DNSType
	}
	if inList(dt, m.QRestr) {
		return false, "dnstype-restricted"
	}
	if len(m.QPerm) > 0 && !inList(dt, m.QPerm) {
		return false, "dnstype-permitted"
	}
	for _, tg := range q.Tags {
		if inList(tg, m.GRestr) {
			return false, "ctag-restricted"
		}
	}
	if len(m.GPerm) > 0 {
		ok := false
		for _, tg := range q.Tags {
			if inList(tg, m.GPerm) {
				ok = true
			}
		}
		if !ok {
			return false, "ctag-permitted"
		}
	}
	if refCliContains(m.CRestr, q.CName, q.CIP) {
		return false, "client-restricted"
	}
	if len(m.CPerm) > 0 && !refCliContains(m.CPerm, q.CName, q.CIP) {
		return false, "client-permitted"
	}
	if !refPatMatch(m.Pat, refTarget(m.Pat, q), m.MC) {
		return false, "pattern"
	}
	return true, "match"
}

var refRegexCache sync.Map // expression text -> *regexp.Regexp of the reference

// refPatMatch: the pattern text applied to the target.  A /regular expression/
// is compiled as written (case-insensitive unless $match-case), anything else
// is a mask.
func refPatMatch(pat, target string, mc bool) bool {
	if len(pat) > 1 && pat[0] == '/' && pat[len(pat)-1] == '/' {
		src := pat[1 : len(pat)-1]
		if !mc {
			src = "(?i)" + src
		}
		var re *regexp.Regexp
		if v, ok := refRegexCache.Load(src); ok {
			re, _ = v.(*regexp.Regexp)
		} else {
			re, _ = regexp.Compile(src)
			refRegexCache.Store(src, re)
		}
		return re != nil && re.MatchString(target)
	}
	return parseRefMask(pat).match(target, mc)
}

func sortedKeys(m map[string]bool) []string {
	k := make([]string, 0, len(m))
	for x := range m {
		k = append(k, x)
	}
	sort.Strings(k)
	return k
}

func setOf(xs []string) map[string]bool {
	m := map[string]bool{}
	for _, x := range xs {
		m[x] = true
	}
	return m
}

func sameSet(a, b map[string]bool) bool {
	if len(a) != len(b) {
		return false
	}
	for k := range a {
		if !b[k] {
			return false
		}
	}
	return true
}

func netTexts(rs []*rules.NetworkRule) []string {
	out := make([]string, 0, len(rs))
	for _, r := range rs {
		out = append(out, r.Text())
	}
	return out
}

// ---------------------------------------------------------------------------
// requests built from the rule: satisfy every modifier, then break 0..2 of them

var candHosts = []string{"example.org", "www.example.org", "google.com", "a.com", "1.2.3.4", "1.2.9.9", "notexample.org",
	"sub.example.org", "ads.example.com", "google.co.uk", "b.net", "x.a.com", "x.sub.example.org", "ads.net",
	"abc.de", "dead.beef", "1.2.3", // hex digits and dots only, but not IP addresses
	"ad-server.example.org", "ad_server.example.org", "tracker1.example.com", "tracker22.example.com"} // host-name requests carry lower-case names (the caller's duty)

func candidateURLs() []string {
	var out []string
	for _, sch := range []string{"http://", "https://", "ws://"} {
		for _, h := range candHosts {
			for _, tl := range urlTails {
				out = append(out, sch+h+tl)
			}
		}
	}
	// in a URL the host may be written in any letter case
	out = append(out, "http://Tracker22.Example.com/", "https://TRACKER1.example.com/Banner7.gif")
	return out
}

var allCandURLs = candidateURLs()

// repairQ changes q field by field so that it satisfies m where that is
// possible with the vocabulary.
func repairQ(t *rapid.T, q Q, m NetModel) Q {
	if len(m.DPerm) > 0 || m.TP == 1 {
		q.Host = false
	} else if len(m.QPerm) > 0 {
		q.Host = true
	}
	denyOK := func(h string, hostReq bool) bool {
		if len(m.Deny) == 0 {
			return true
		}
		if hostReq {
			if _, err := netip.ParseAddr(h); err == nil {
				return false
			}
		}
		return !refSubOfAny(h, m.Deny)
	}
	if q.Host {
		q.URL, q.Src, q.Typ = "", "", ""
		var ok []string
		for _, h := range candHosts {
			hq := Q{Host: true, Hostname: h}
			if denyOK(h, true) && refPatMatch(m.Pat, refTarget(m.Pat, hq), m.MC) {
				ok = append(ok, h)
			}
		}
		if len(ok) > 0 {
			q.Hostname = pick(t, "rep-host", ok)
		} else if q.Hostname == "" {
			q.Hostname = "example.org"
		}
		if len(m.QPerm) > 0 {
			q.DNSType = pick(t, "rep-dnstype", m.QPerm)
		} else if inList(q.DNSType, m.QRestr) {
			q.DNSType = ""
		}
	} else {
		q.Hostname, q.DNSType = "", ""
		var ok []string
		for _, u := range allCandURLs {
			if denyOK(refHostOf(u), false) && refPatMatch(m.Pat, u, m.MC) {
				ok = append(ok, u)
			}
		}
		if len(ok) > 0 {
			q.URL = pick(t, "rep-url", ok)
		} else if q.URL == "" {
			q.URL = "http://example.org/"
		}
		h := refHostOf(q.URL)
		// source
		var srcs []string
		for _, d := range m.DPerm {
			if strings.HasSuffix(d, ".*") {
				for _, suf := range wildSuffixes {
					srcs = append(srcs, d[:len(d)-2]+"."+suf, "www."+d[:len(d)-2]+"."+suf)
				}
			} else {
				srcs = append(srcs, d, "sub."+d)
			}
		}
		if len(m.DPerm) == 0 {
			srcs = append(srcs, baseDomains...)
			srcs = append(srcs, h, "www."+h)
			if m.TP != 1 {
				srcs = append(srcs, "")
			}
		}
		var okSrc []string
		for _, s := range srcs {
			if refSubOfAny(s, m.DRestr) || (len(m.DPerm) > 0 && !refSubOfAny(s, m.DPerm)) {
				continue
			}
			third := s != "" && refRegDomain(s) != refRegDomain(h)
			if (m.TP == 1 && !third) || (m.TP == 2 && third) {
				continue
			}
			okSrc = append(okSrc, s)
		}
		if len(okSrc) > 0 {
			s := pick(t, "rep-src", okSrc)
			if s == "" {
				q.Src = ""
			} else {
				q.Src = "https://" + s + "/"
			}
		}
		docOnly := false
		for _, e := range m.Extra {
			switch e {
			case "elemhide", "generichide", "genericblock", "jsinject", "urlblock", "content", "extension", "document", "popup":
				docOnly = true
			}
		}
		switch {
		case docOnly:
			q.Typ = "document"
		case len(m.TIncl) > 0:
			q.Typ = pick(t, "rep-type", m.TIncl)
		case inList(q.Typ, m.TExcl) || q.Typ == "":
			for _, ty := range reqTypeNames {
				if !inList(ty, m.TExcl) {
					q.Typ = ty
					break
				}
			}
		}
	}
	// tags
	var tags []string
	for _, g := range q.Tags {
		if !inList(g, m.GRestr) {
			tags = append(tags, g)
		}
	}
	if len(m.GPerm) > 0 {
		tags = append(tags, pick(t, "rep-tag", m.GPerm))
		sort.Strings(tags)
		tags = uniqSorted(tags)
	}
	q.Tags = tags
	// client
	if refCliContains(m.CRestr, q.CName, "") {
		q.CName = ""
	}
	if q.CIP != "" && refCliContains(m.CRestr, "", q.CIP) {
		q.CIP = ""
	}
	if len(m.CPerm) > 0 && !refCliContains(m.CPerm, q.CName, q.CIP) {
		c := pick(t, "rep-cli", m.CPerm)
		switch c.Kind {
		case "name":
			q.CName = c.Val
		case "ip":
			q.CIP = c.Val
		case "cidr":
			q.CIP = netip.MustParsePrefix(c.Val).Masked().Addr().String()
		}
		if q.CIP != "" && refCliContains(m.CRestr, "", q.CIP) && c.Kind != "name" {
			// cannot satisfy both with this address; leave it
			_ = c
		}
	}
	return q
}

// genQNear draws a request that satisfies the rule and then re-draws 0..2
// field groups, so that each modifier is individually decisive.
func genQNear(t *rapid.T, m NetModel) Q {
	q := genQ(t, &m)
	if chance(t, "unsteered", 5) {
		return q
	}
	q = repairQ(t, q, m)
	nbreak := rapid.IntRange(0, 2).Draw(t, "nbreak")
	for i := 0; i < nbreak; i++ {
		o := genQ(t, &m)
		switch rapid.IntRange(0, 5).Draw(t, "break-field") {
		case 0:
			if o.Host == q.Host {
				q.URL, q.Hostname = o.URL, o.Hostname
			}
		case 1:
			if !q.Host && !o.Host {
				q.Src = o.Src
			}
		case 2:
			if !q.Host && !o.Host {
				q.Typ = o.Typ
			}
		case 3:
			if q.Host {
				q.DNSType = pick(t, "break-dnstype", append([]string{""}, dnsNames...))
			}
		case 4:
			q.CName, q.CIP = o.CName, o.CIP
		case 5:
			q.Tags = o.Tags
		}
	}
	return q
}

// modelKey is the identity of a rule "apart from the badfilter modifier":
// exception flag, pattern and every modifier with its value set, independent of
// the written order.
func modelKey(m NetModel) string {
	ss := func(xs []string) string {
		c := append([]string{}, xs...)
		sort.Strings(c)
		return strings.Join(uniqSorted(c), "|") // value SETS: a repeated value adds nothing
	}
	cs := func(xs []Cli) string {
		var c []string
		for _, x := range xs {
			v := x.Val
			if x.Kind == "cidr" {
				v = netip.MustParsePrefix(v).Masked().String()
			} else if x.Kind == "ip" {
				v = netip.MustParseAddr(v).String()
			}
			c = append(c, x.Kind[:1]+":"+v)
		}
		sort.Strings(c)
		return strings.Join(c, "|")
	}
	var extra []string
	for _, e := range m.Extra {
		if e != "badfilter" {
			extra = append(extra, e)
		}
	}
	rw := "<none>"
	if m.Rewrite != nil {
		rw = "=" + *m.Rewrite
		if *m.Rewrite == "NOERROR" || *m.Rewrite == "NOERROR;;" {
			rw = "=" // the same (empty) rewrite in three spellings
		}
	}
	pat := m.Pat
	if strings.HasSuffix(pat, "/*") {
		pat = pat[:len(pat)-2] + "^"
	}
	return strings.Join([]string{
		boolStr(m.Exc), pat, string(rune('0' + m.TP)), boolStr(m.MC), ss(m.TIncl), ss(m.TExcl), ss(m.DPerm), ss(m.DRestr), ss(m.Deny),
		ss(m.QPerm), ss(m.QRestr), ss(m.GPerm), ss(m.GRestr), cs(m.CPerm), cs(m.CRestr), ss(extra), rw}, "\x00")
}

func boolStr(b bool) string {
	if b {
		return "1"
	}
	return "0"
}
