package props

import (
	"fmt"
	"net/url"
	"regexp"
	"runtime"
	"strings"
	"sync"
	"testing"

	"github.com/AdguardTeam/urlfilter/rules"
	"golang.org/x/net/publicsuffix"
	"pgregory.net/rapid"
)

// C17 — request fields agree with the standard URL parser and the Public Suffix List.

type c17Case struct {
	URL      string `json:"url"`
	Src      string `json:"src,omitempty"`
	Hostname string `json:"hostname,omitempty"` // for NewRequestForHostname
	// Together: host names whose requests are constructed by several goroutines at the same time
	Together []string `json:"together,omitempty"`
}

// the contract: scheme://host[:port] then nothing, /path or ?query, then an
// optional #fragment (never directly after the host/port); host is a domain
// name without empty labels or an IPv4 literal; no userinfo.
var c17Contract = regexp.MustCompile(`^[a-zA-Z][a-zA-Z0-9+.-]*://([A-Za-z0-9_-]+(\.[A-Za-z0-9_-]+)*)(:[0-9]{1,5})?((/|\?)[ -"$-~\x{80}-\x{10FFFF}]*(#[ -~]*)?)?$`)

func c17InContract(u string) bool {
	if u == "" {
		return true
	}
	if !c17Contract.MatchString(u) {
		return false
	}
	pu, err := url.Parse(u)
	return err == nil && pu.Hostname() != "" && pu.User == nil
}

func c17RefDomain(host string) string {
	d, err := publicsuffix.EffectiveTLDPlusOne(host)
	if err != nil {
		return host
	}
	return d
}

func capLen(s string) string {
	if len(s) > 4096 {
		return s[:4096]
	}
	return s
}

func asciiLower(s string) string {
	b := []byte(s)
	for i, c := range b {
		if c >= 'A' && c <= 'Z' {
			b[i] = c + 32
		}
	}
	return string(b)
}

// c17ConstructTogether: the fields of a request do not depend on what other
// goroutines construct at the same moment (request construction is a pure function).
func c17ConstructTogether(hosts []string, rec *Rec) *Violation {
	const id = "C17"
	var ok []string
	for _, h := range hosts {
		if h != "" && !strings.Contains(h, "..") && !strings.HasPrefix(h, ".") && !strings.HasSuffix(h, ".") && h == asciiLower(h) {
			ok = append(ok, h)
		}
	}
	if len(ok) < 2 {
		return nil
	}
	want := map[string]string{}
	for _, h := range ok {
		want[h] = c17RefDomain(h)
	}
	const G = 4
	errs := make([]string, G)
	var wg sync.WaitGroup
	for g := 0; g < G; g++ {
		wg.Add(1)
		go func(g int) {
			defer wg.Done()
			for round := 0; round < 400 && errs[g] == ""; round++ {
				h := ok[(round+g)%len(ok)]
				src := ok[(round*3+g+1)%len(ok)]
				if r := rules.NewRequestForHostname(h); r.Domain != want[h] {
					errs[g] = fmt.Sprintf("NewRequestForHostname(%q): Domain=%q, PSL eTLD+1 (or host)=%q", h, r.Domain, want[h])
				}
				r := rules.NewRequest("http://"+h+"/x", "http://"+src+"/", rules.TypeScript)
				if r.Domain != want[h] || r.SourceDomain != want[src] || r.ThirdParty != (want[h] != want[src]) {
					errs[g] = fmt.Sprintf("NewRequest(http://%s/x, http://%s/): Domain=%q SourceDomain=%q ThirdParty=%v, reference %q %q %v", h, src, r.Domain, r.SourceDomain, r.ThirdParty, want[h], want[src], want[h] != want[src])
				}
				if round%16 == 0 {
					runtime.Gosched()
				}
			}
		}(g)
	}
	wg.Wait()
	for g, e := range errs {
		if e != "" {
			return viol(id, "C17:fields-differ:constructed-concurrently", "%d goroutines constructing requests for %q at once, goroutine %d: %s", G, ok, g, e)
		}
	}
	rec.NonTrivial("together|"+strings.Join(ok, ","), map[string]any{"constructed_together": ok})
	return nil
}

func checkC17(c c17Case, rec *Rec) *Violation {
	const id = "C17"
	if len(c.Together) > 0 {
		return c17ConstructTogether(c.Together, rec)
	}
	if c.Hostname != "" {
		h := c.Hostname
		if strings.Contains(h, "..") || strings.HasPrefix(h, ".") || strings.HasSuffix(h, ".") || h != asciiLower(h) {
			rec.Label("skipped:outside-contract")
			return nil
		}
		r := rules.NewRequestForHostname(h)
		if strings.Count(h, ".") >= 2 {
			rec.NonTrivial("h|"+h, map[string]any{"hostname": h, "domain": r.Domain})
		}
		if r.Hostname != h || r.URL != "http://"+h || r.URLLowerCase != r.URL || !r.IsHostnameRequest || r.ThirdParty || r.RequestType != rules.TypeDocument {
			return viol(id, "C17:hostname-request-fields", "NewRequestForHostname(%q): %+v", h, *r)
		}
		if want := c17RefDomain(h); r.Domain != want {
			return viol(id, "C17:hostname-request-domain", "NewRequestForHostname(%q): Domain=%q, PSL eTLD+1 (or host)=%q", h, r.Domain, want)
		}
		return nil
	}
	if !c17InContract(c.URL) || c.URL == "" || !c17InContract(c.Src) {
		rec.Label("skipped:outside-contract")
		return nil
	}
	r := rules.NewRequest(c.URL, c.Src, rules.TypeScript)
	pu, _ := url.Parse(c.URL)
	host := pu.Hostname()
	labels := strings.Count(host, ".") + 1
	suffix, icann := publicsuffix.PublicSuffix(host)
	if labels >= 3 || strings.Contains(suffix, ".") || !icann {
		rec.NonTrivial(c.URL+"|"+c.Src, c)
	}
	if r.URL != capLen(c.URL) || r.SourceURL != capLen(c.Src) {
		return viol(id, "C17:url-cap", "URL/SourceURL not the 4096-byte prefix: len(url)=%d -> %d, len(src)=%d -> %d", len(c.URL), len(r.URL), len(c.Src), len(r.SourceURL))
	}
	if r.URLLowerCase != strings.ToLower(r.URL) {
		return viol(id, "C17:lower-case", "URLLowerCase is not the lower-casing of the (capped) URL %q", clip(r.URL))
	}
	// when the cap cuts inside the host the comparison is with the parse of the capped text
	capped, err := url.Parse(r.URL)
	if err != nil {
		rec.Label("skipped:capped-url-unparseable")
		return nil
	}
	host = capped.Hostname()
	if r.Hostname != host {
		return viol(id, "C17:hostname", "URL %q: Hostname=%q, net/url says %q", clip(c.URL), r.Hostname, host)
	}
	if want := c17RefDomain(host); r.Domain != want {
		return viol(id, "C17:domain", "URL %q: Domain=%q, PSL eTLD+1 (or host)=%q", clip(c.URL), r.Domain, want)
	}
	srcHost, srcDomain := "", ""
	if c.Src != "" {
		ps, err := url.Parse(r.SourceURL)
		if err != nil {
			rec.Label("skipped:capped-src-unparseable")
			return nil
		}
		srcHost = ps.Hostname()
		srcDomain = c17RefDomain(srcHost)
	}
	if r.SourceHostname != srcHost || r.SourceDomain != srcDomain {
		return viol(id, "C17:source-fields", "source %q: SourceHostname=%q SourceDomain=%q, reference %q / %q", clip(c.Src), r.SourceHostname, r.SourceDomain, srcHost, srcDomain)
	}
	wantTP := c.Src != "" && srcDomain != c17RefDomain(host)
	if r.ThirdParty != wantTP {
		return viol(id, "C17:third-party", "url %q source %q: ThirdParty=%v, reference %v (domains %q vs %q)", clip(c.URL), clip(c.Src), r.ThirdParty, wantTP, c17RefDomain(host), srcDomain)
	}
	if c.Src != "" {
		rr := rules.NewRequest(c.Src, c.URL, rules.TypeScript)
		if rr.ThirdParty != r.ThirdParty {
			return viol(id, "C17:third-party-asymmetric", "ThirdParty(%q,%q)=%v but swapped %v", clip(c.URL), clip(c.Src), r.ThirdParty, rr.ThirdParty)
		}
	}
	if r.IsHostnameRequest || r.RequestType != rules.TypeScript {
		return viol(id, "C17:other-fields", "unexpected IsHostnameRequest/RequestType in %+v", *r)
	}
	return nil
}

func clip(s string) string {
	if len(s) > 200 {
		return s[:100] + "…" + s[len(s)-60:]
	}
	return s
}

var c17Schemes = []string{"http", "https", "ws", "wss", "ftp", "chrome-extension", "HTTP", "moz-extension", "h2"}
var c17Labels = []string{"example", "google", "www", "a", "b", "x-y", "cdn1", "sub", "city", "foo", "t", "me", "ck", "EXAMPLE", "xn--p1ai", "1", "x_y", strings.Repeat("x", 63), strings.Repeat("y", 62)}
var c17Suffixes = []string{"com", "org", "net", "co.uk", "uk", "ck", "www.ck", "kobe.jp", "city.kobe.jp", "github.io", "blogspot.com", "local", "test", "jp", "com.au", "s3.amazonaws.com", "appspot.com", "xn--p1ai", "COM",
	"s3.dualstack.us-east-1.amazonaws.com", "app.os.stg.fedoraproject.org", "execute-api.cn-north-1.amazonaws.com.cn"} // long private suffix rules

func genC17Host(t *rapid.T) string {
	switch rapid.IntRange(0, 12).Draw(t, "hostkind") {
	case 12:
		// names spelled with hexadecimal digits and dots only: they look like addresses to a character-class test
		n := rapid.IntRange(1, 3).Draw(t, "hex-labels")
		var ls []string
		for i := 0; i < n; i++ {
			ls = append(ls, pick(t, "hex-label", []string{"abc", "dead", "beef", "face", "a", "b", "0", "1", "cafe", "F00D", "ac", "de"}))
		}
		return strings.Join(ls, ".") + "." + pick(t, "hex-suffix", []string{"ac.be", "ac.ae", "bd", "de", "cc", "ac", "be", "ae", "cd", "ee", "ac.cd"})
	case 10:
		// host names around the 253-byte limit
		n := pick(t, "hostlen", []int{250, 252, 253, 254, 255})
		var sb strings.Builder
		for sb.Len() < n-4 {
			k := n - 4 - sb.Len()
			if k > 40 {
				k = 40
			}
			sb.WriteString(strings.Repeat("a", k-1))
			sb.WriteString(".")
		}
		h := sb.String() + "com"
		for len(h) < n {
			h = "b" + h
		}
		return h
	case 11:
		return pick(t, "zhost", []string{"adZone.example.org", "Zz.example.com", "ZONE.net"})
	case 0:
		return pick(t, "ipv4", []string{"1.2.3.4", "127.0.0.1", "10.0.0.1", "255.255.255.255", "1.2.3"})
	case 1:
		return pick(t, "single", []string{"localhost", "intranet", "a", "com", "uk", "ck"})
	case 2:
		return pick(t, "suffix-itself", c17Suffixes)
	}
	n := rapid.IntRange(1, 4).Draw(t, "nlabels")
	var ls []string
	for i := 0; i < n; i++ {
		if chance(t, "gen-label", 4) {
			ls = append(ls, rapid.StringMatching(`[a-z0-9]([a-z0-9-]{0,10}[a-z0-9])?`).Draw(t, "label"))
		} else {
			ls = append(ls, pick(t, "label-v", c17Labels))
		}
	}
	return strings.Join(ls, ".") + "." + pick(t, "suffix", c17Suffixes)
}

func genC17URL(t *rapid.T, long bool) string {
	var sb strings.Builder
	sb.WriteString(pick(t, "scheme", c17Schemes))
	sb.WriteString("://")
	sb.WriteString(genC17Host(t))
	if chance(t, "port", 4) {
		sb.WriteString(":" + pick(t, "portv", []string{"80", "8080", "443", "1", "65535"}))
	}
	switch rapid.IntRange(0, 3).Draw(t, "rest") {
	case 1, 2:
		sb.WriteString("/" + pick(t, "path", []string{"", "a/b.js", "a//b", "x:y", "p?q=1&r=http://other.example/", "a%20b", "~u/;p=1", "index.html", "a/@b", "A/B", "adZone.js", "Zz", "\u212aelvin", "caf\u00c9", "list?ids[]=1", "a[1]/b", "x]y", "[::1]/z"}))
	case 3:
		sb.WriteString("?" + pick(t, "query", []string{"", "q=1", "u=http://other.example//x", "a:b", "x/y?z", "email=john@tracker.com", "@", "x=@y/z", "u=me:pw@host.example", "ids[]=1&ids[]=2", "a]=b", "h=[::1]:80"}))
	}
	if sb.Len() > 0 && strings.ContainsAny(sb.String()[strings.Index(sb.String(), "://")+3:], "/?") {
		if long {
			target := pick(t, "long-len", []int{4000, 4090, 4096, 4097, 5000})
			filler := pick(t, "long-filler", []string{"abcdefghij", "ABCDEFGHIZ", "abc\u212adefg", "\u00e9\u00c9xyz", "Z"})
			for sb.Len() < target {
				sb.WriteString(filler)
			}
		}
		if chance(t, "fragment", 4) {
			sb.WriteString("#" + pick(t, "frag", []string{"", "top", "a/b?c", "http://z.example/", "x]", "[a]"}))
		}
	}
	return sb.String()
}

func genC17(t *rapid.T) c17Case {
	if chance(t, "hostname-request", 5) {
		return c17Case{Hostname: asciiLower(genC17Host(t))}
	}
	c := c17Case{URL: genC17URL(t, chance(t, "long", 12))}
	switch rapid.IntRange(0, 3).Draw(t, "srckind") {
	case 0:
	case 1:
		// a source that shares ingredients with the URL (same host, sibling, parent)
		pu, err := url.Parse(c.URL)
		if err == nil && pu.Hostname() != "" {
			h := pu.Hostname()
			switch rapid.IntRange(0, 3).Draw(t, "rel") {
			case 1:
				h = "other." + h
			case 2:
				if i := strings.IndexByte(h, '.'); i > 0 {
					h = h[i+1:]
				}
			case 3:
				if i := strings.IndexByte(h, '.'); i > 0 {
					h = "sibling." + h[i+1:]
				}
			}
			c.Src = "https://" + h + "/page"
		}
	default:
		c.Src = genC17URL(t, chance(t, "long-src", 20))
	}
	return c
}

func init() { register("C17", checkC17) }

func TestC17(t *testing.T) {
	runProp(t, "C17", checkC17, nil, part[c17Case]{"urls", scale(40000, 150000), genC17},
		part[c17Case]{"constructed-together", scale(150, 1000), func(t *rapid.T) c17Case {
			var hs []string
			for i := rapid.IntRange(2, 6).Draw(t, "nhosts"); i > 0; i-- {
				hs = append(hs, asciiLower(genC17Host(t)))
			}
			return c17Case{Together: hs}
		}})
}

// FuzzC17 mutates well-formed URLs; inputs outside the contract are discarded
// by checkC17 (and counted).
func FuzzC17(f *testing.F) {
	f.Add("http://example.org/", "")
	f.Add("https://www.example.co.uk:8080/a/b?c=d#e", "https://example.co.uk/")
	f.Add("ws://a.b.city.kobe.jp?x", "http://foo.kobe.jp/")
	f.Add("http://1.2.3.4/x", "http://me.github.io/")
	f.Fuzz(func(t *testing.T, u, s string) {
		if !isPrintable(u) || !isPrintable(s) || strings.Contains(u, "\t") || strings.Contains(s, "\t") {
			return
		}
		fuzzCheck(t, "C17", checkC17, c17Case{URL: u, Src: s})
	})
}
