package props

import (
	"fmt"
	"io"
	"log/slog"
	"os"
	"runtime"
	"strings"
	"sync"
	"sync/atomic"
	"testing"
	"time"

	"github.com/AdguardTeam/urlfilter"
	"github.com/AdguardTeam/urlfilter/filterlist"
	"pgregory.net/rapid"
)

// C19 — unreadable rule lists degrade results to a subset, never crash or lie.

type c19Case struct {
	Lists   []ListSpec `json:"lists"` // all file-backed
	Queries []Q        `json:"queries"`
}

// c19NotSubset builds the violation for a returned entry that the fault-free
// engine does not return.  One shape has its own signature: the DNS engine
// answers from the hosts table because the basic network rule that decides the
// fault-free answer could not be read (known finding, see DESIGN.md 10.5).
func c19NotSubset(where string, q Q, x string, oracle map[string]bool) *Violation {
	sig := "C19:not-a-subset"
	if q.Host && (strings.HasPrefix(x, "4|") || strings.HasPrefix(x, "6|")) {
		hostsInOracle := false
		for o := range oracle {
			if strings.HasPrefix(o, "4|") || strings.HasPrefix(o, "6|") {
				hostsInOracle = true
			}
		}
		if !hostsInOracle {
			sig = "C19:not-a-subset:hosts-fallback-after-lost-basic-rule"
		}
	}
	return viol("C19", sig, "%s: query %+v returned %q which the fault-free engine does not return (%q)", where, q, x, sortedKeys(oracle))
}

// c19QueryDeadline: a single engine query normally takes microseconds.
const c19QueryDeadline = 30 * time.Second

// c19Engines builds file-backed engines and returns handles on the lists.
func c19Engines(lists []ListSpec) (*engSet, []*filterlist.FileRuleList, func(), error) {
	var files []string
	var fls []*filterlist.FileRuleList
	var rl []filterlist.RuleList
	cleanup := func() {
		for _, l := range fls {
			_ = l.Close()
		}
		for _, f := range files {
			_ = os.Remove(f)
		}
	}
	for _, l := range lists {
		f, err := os.CreateTemp("", "verif-c19-*.txt")
		if err != nil {
			cleanup()
			return nil, nil, func() {}, err
		}
		_, _ = f.WriteString(l.Text)
		_ = f.Close()
		files = append(files, f.Name())
		fl, err := filterlist.NewFileRuleList(l.ID, f.Name(), l.IgnoreCosmetic)
		if err != nil {
			cleanup()
			return nil, nil, func() {}, err
		}
		fls = append(fls, fl)
		rl = append(rl, fl)
	}
	st, err := filterlist.NewRuleStorage(rl)
	if err != nil {
		cleanup()
		return nil, nil, func() {}, err
	}
	en := &engSet{st: st, e: urlfilter.NewEngine(st), n: urlfilter.NewNetworkEngine(st), d: urlfilter.NewDNSEngine(st), cleanup: cleanup}
	return en, fls, cleanup, nil
}

func closedFile() *os.File {
	f, err := os.CreateTemp("", "verif-c19-closed-*")
	if err != nil {
		return nil
	}
	name := f.Name()
	_ = f.Close()
	_ = os.Remove(name)
	return f
}

func checkC19(c c19Case, rec *Rec) *Violation {
	const id = "C19"
	trackCase(id, "C19:process-killed", c)
	slog.SetDefault(slog.New(slog.NewTextHandler(io.Discard, nil))) // "cannot retrieve" noise is expected
	oracleEn, err := newEngSet(stringBacked(c.Lists))
	if err != nil {
		return viol(id, "C19:harness", "storage: %v", err)
	}
	oracle := make([]map[string]bool, len(c.Queries))
	for i, q := range c.Queries {
		oracle[i] = oracleEn.resultSet(q)
	}
	oracleEn.cleanup()
	n := len(c.Queries)
	nontrivial := false
	kinds := []string{"close", "closed-fd"}
	if len(c.Lists) >= 2 {
		kinds = append(kinds, "closed-fd-first-list-only")
	}
	// the storage is closed and the process then opens other files, which get the descriptor numbers of the lists
	kinds = append(kinds, "close-then-descriptors-reused", "closed-fd-then-close")
	for _, kind := range kinds {
		for k := 0; k <= n; k++ {
			if (kind == "close-then-descriptors-reused" || kind == "closed-fd-then-close") && k != 1 && k != n/2+1 {
				continue // two fault points are enough for this kind (it needs a rule loaded before the fault)
			}
			en, fls, cleanup0, err := c19Engines(c.Lists)
			if err != nil {
				return viol(id, "C19:harness", "storage: %v", err)
			}
			var decoys []*os.File
			cleanup := func() {
				for _, d := range decoys {
					name := d.Name()
					_ = d.Close()
					_ = os.Remove(name)
				}
				cleanup0()
			}
			seen := map[string]bool{}
			for i, q := range c.Queries {
				if i == k {
					switch kind {
					case "close":
						_ = en.st.Close()
					case "close-then-descriptors-reused":
						_ = en.st.Close()
						for j := 0; j < len(fls)+2; j++ {
							if d, derr := os.CreateTemp("", "verif-decoy-*.txt"); derr == nil {
								// text that is a matching rule from whatever offset a stray read starts
								_, _ = d.WriteString(strings.Repeat("||example.org^\nadsgp\n0.0.0.0 example.org\n/banner_ad\nexample\n", 3000))
								decoys = append(decoys, d)
							}
						}
					case "closed-fd-then-close":
						// two faults: the handles are replaced by closed ones, then the storage is closed (which fails)
						for _, fl := range fls {
							old := fl.File
							fl.File = closedFile()
							_ = old.Close()
						}
						_ = en.st.Close()
					case "closed-fd":
						for _, fl := range fls {
							old := fl.File
							fl.File = closedFile()
							_ = old.Close()
						}
					case "closed-fd-first-list-only":
						old := fls[0].File
						fls[0].File = closedFile()
						_ = old.Close()
					}
				}
				var got map[string]bool
				var pan any
				done := make(chan struct{})
				go func() {
					defer close(done)
					defer func() { pan = recover() }()
					got = en.resultSet(q)
				}()
				select {
				case <-done:
				case <-time.After(c19QueryDeadline):
					// a query is microseconds of work: not returning for this long is a deadlock, not slowness
					return viol(id, "C19:query-does-not-return-after-fault", "fault %s before query %d: query %d %+v did not return within %v", kind, k, i, q, c19QueryDeadline)
				}
				rec.Eval()
				if pan != nil {
					cleanup()
					return viol(id, "C19:panic-after-fault", "fault %s before query %d: query %d %+v panicked: %v", kind, k, i, q, pan)
				}
				for _, x := range sortedKeys(got) {
					if !oracle[i][x] {
						if v := rec.filter(c19NotSubset(fmt.Sprintf("fault %s before query %d, query %d", kind, k, i), q, x, oracle[i])); v != nil {
							cleanup()
							return v
						}
					}
				}
				if i < k {
					if len(got) != len(oracle[i]) {
						cleanup()
						return viol(id, "C19:differs-before-fault", "no fault yet (fault %s before query %d) but query %d %+v returned %q, fault-free %q", kind, k, i, q, sortedKeys(got), sortedKeys(oracle[i]))
					}
					for x := range got {
						seen[x] = true
					}
				} else {
					for x := range oracle[i] {
						if seen[x] {
							nontrivial = true
							rec.Label("materialised-rule-must-still-be-served")
							if !got[x] {
								cleanup()
								return viol(id, "C19:materialised-rule-lost", "fault %s before query %d: rule %q was returned earlier and matches query %d %+v but is no longer served (got %q)", kind, k, x, i, q, sortedKeys(got))
							}
						}
					}
				}
			}
			rec.Label("fault-point:" + kind)
			cleanup()
		}
	}
	if v := c19ConcurrentAfterPartialFault(c, oracle, rec); v != nil {
		return v
	}
	if v := c19ConcurrentLoadThenFault(c, oracle, rec); v != nil {
		return v
	}
	if v := c19FaultWhileLoading(c, oracle, rec); v != nil {
		return v
	}
	if nontrivial {
		rec.NonTrivial(fmt.Sprintf("%x", hash64(fmt.Sprint(c))), map[string]any{"lists": c.Lists, "queries": c.Queries, "fault_points": 2 * (n + 1)})
	}
	return nil
}

// c19ConcurrentAfterPartialFault: one list becomes unreadable, the others stay
// healthy; several goroutines then query at once, so that rules of the healthy
// lists are still being materialised while loaded rules of the broken list are
// served.  Same oracle as the sequential enumeration.
func c19ConcurrentAfterPartialFault(c c19Case, oracle []map[string]bool, rec *Rec) *Violation {
	const id = "C19"
	if len(c.Lists) < 2 || len(c.Queries) < 2 {
		return nil
	}
	for broken := 0; broken < len(c.Lists) && broken < 2; broken++ {
		en, fls, cleanup, err := c19Engines(c.Lists)
		if err != nil {
			return viol(id, "C19:harness", "storage: %v", err)
		}
		k := len(c.Queries) / 2
		seen := map[string]bool{}
		for _, q := range c.Queries[:k] {
			for x := range en.resultSet(q) {
				seen[x] = true
			}
		}
		old := fls[broken].File
		fls[broken].File = closedFile()
		_ = old.Close()
		const G = 4
		var wg sync.WaitGroup
		viols := make([]*Violation, G)
		for g := 0; g < G; g++ {
			wg.Add(1)
			go func(g int) {
				defer wg.Done()
				defer func() {
					if e := recover(); e != nil {
						viols[g] = viol(id, "C19:panic-after-fault", "concurrent phase after list %d became unreadable: panic: %v", c.Lists[broken].ID, e)
					}
				}()
				for round := 0; round < 6; round++ {
					for i := range c.Queries {
						qi := (i + g*3) % len(c.Queries)
						got := en.resultSet(c.Queries[qi])
						for _, x := range sortedKeys(got) {
							if !oracle[qi][x] {
								if v := rec.filter(c19NotSubset("concurrent phase after a partial fault", c.Queries[qi], x, oracle[qi])); v != nil {
									viols[g] = v
									return
								}
							}
						}
						for x := range oracle[qi] {
							if seen[x] && !got[x] {
								viols[g] = viol(id, "C19:materialised-rule-lost:concurrent", "list %d unreadable, %d goroutines querying: rule %q was returned before the fault and matches %+v but is not served", c.Lists[broken].ID, G, x, c.Queries[qi])
								return
							}
						}
					}
				}
			}(g)
		}
		done := make(chan struct{})
		go func() { wg.Wait(); close(done) }()
		select {
		case <-done:
		case <-time.After(c19QueryDeadline):
			cleanup()
			return viol(id, "C19:query-does-not-return-after-fault", "concurrent phase after a partial fault did not finish within %v", c19QueryDeadline)
		}
		cleanup()
		rec.Label("concurrent-phase-after-partial-fault")
		for _, v := range viols {
			if v != nil {
				return v
			}
		}
	}
	return nil
}

// c19ConcurrentLoadThenFault: the rules are materialised by several goroutines
// at once (every goroutine its own share of the queries, on a cold cache), then
// every list becomes unreadable, then the queries are asked again one by one:
// whatever was returned before the fault and matches must still be served.
func c19ConcurrentLoadThenFault(c c19Case, oracle []map[string]bool, rec *Rec) *Violation {
	const id = "C19"
	if len(c.Queries) < 2 {
		return nil
	}
	en, fls, cleanup, err := c19Engines(c.Lists)
	if err != nil {
		return viol(id, "C19:harness", "storage: %v", err)
	}
	defer cleanup()
	c14HookMu.Lock()
	setYieldHooks(func(string) { runtime.Gosched() })
	const G = 4
	before := make([]map[string]bool, len(c.Queries))
	var wg sync.WaitGroup
	panics := make([]any, G)
	for g := 0; g < G; g++ {
		wg.Add(1)
		go func(g int) {
			defer wg.Done()
			defer func() { panics[g] = recover() }()
			for i := g; i < len(c.Queries); i += G {
				before[i] = en.resultSet(c.Queries[i])
			}
		}(g)
	}
	wg.Wait()
	setYieldHooks(nil)
	c14HookMu.Unlock()
	for g, p := range panics {
		if p != nil {
			return viol(id, "C19:harness", "goroutine %d panicked before any fault: %v", g, p)
		}
	}
	seen := map[string]bool{}
	for i, b := range before {
		if !sameSet(b, oracle[i]) {
			// concurrent answers before any fault are C14's subject; nothing is concluded from this history
			rec.Label("concurrent-load:answers-differ-before-fault")
			return nil
		}
		for x := range b {
			seen[x] = true
		}
	}
	for _, f := range fls {
		old := f.File
		f.File = closedFile()
		_ = old.Close()
	}
	for i, q := range c.Queries {
		got := en.resultSet(q)
		for x := range oracle[i] {
			if seen[x] && !got[x] {
				return viol(id, "C19:materialised-rule-lost:loaded-concurrently", "%d goroutines loaded the rules, then every list became unreadable: rule %q was returned before the fault and matches %+v but is not served", G, x, q)
			}
		}
	}
	rec.Label("concurrent-load-then-fault")
	return nil
}

// c19FaultWhileLoading: four goroutines ask all questions on a cold cache.  One
// of them is held at the library's yield point right after a cache miss (before
// the list is read); the others finish, so the rule it wanted has meanwhile been
// loaded and returned by them; then the storage is closed and the held goroutine
// goes on — its read fails.  A rule counts as "returned before the fault" only if
// the query that returned it had finished before the fault was applied.
// Afterwards the questions are asked one by one: those rules must still be served.
func c19FaultWhileLoading(c c19Case, oracle []map[string]bool, rec *Rec) *Violation {
	const id = "C19"
	if len(c.Queries) < 3 {
		return nil
	}
	en, _, cleanup, err := c19Engines(c.Lists)
	if err != nil {
		return viol(id, "C19:harness", "storage: %v", err)
	}
	defer cleanup()
	var faulted, parked atomic.Bool
	var misses, finished atomic.Int64
	release := make(chan struct{})
	parkAt := int64(1 + hash64(fmt.Sprint(c.Queries))%8)
	c14HookMu.Lock()
	setYieldHooks(func(point string) {
		if point == "storage-cache-miss" && !faulted.Load() && misses.Add(1) == parkAt && parked.CompareAndSwap(false, true) {
			<-release // held between the cache miss and the read until the fault has happened
			return
		}
		runtime.Gosched()
	})
	const G = 4
	var mu sync.Mutex
	seen := map[string]bool{}
	var wg sync.WaitGroup
	panics := make([]any, G)
	for g := 0; g < G; g++ {
		wg.Add(1)
		go func(g int) {
			defer wg.Done()
			defer finished.Add(1)
			defer func() { panics[g] = recover() }()
			for k := range c.Queries {
				i := (k + g*len(c.Queries)/G) % len(c.Queries)
				before := faulted.Load()
				got := en.resultSet(c.Queries[i])
				if !before && !faulted.Load() {
					mu.Lock()
					for x := range got {
						if oracle[i][x] {
							seen[x] = true
						}
					}
					mu.Unlock()
				}
			}
		}(g)
	}
	deadline := time.Now().Add(c19QueryDeadline)
	for {
		f := finished.Load()
		if f == G || (parked.Load() && f == G-1) {
			break
		}
		if time.Now().After(deadline) {
			faulted.Store(true)
			close(release)
			setYieldHooks(nil)
			c14HookMu.Unlock()
			return viol(id, "C19:query-does-not-return-after-fault", "%d goroutines loading rules on a cold cache (one held at a yield point) did not finish within %v", G, c19QueryDeadline)
		}
		time.Sleep(200 * time.Microsecond)
	}
	faulted.Store(true)
	_ = en.st.Close()
	close(release)
	wg.Wait()
	setYieldHooks(nil)
	c14HookMu.Unlock()
	for g, p := range panics {
		if p != nil {
			return viol(id, "C19:panic-after-fault", "storage closed while a goroutine was between cache miss and read, goroutine %d: panic: %v", g, p)
		}
	}
	for i, q := range c.Queries {
		got := en.resultSet(q)
		for x := range oracle[i] {
			if seen[x] && !got[x] {
				return viol(id, "C19:materialised-rule-lost:fault-while-loading", "storage closed while one of %d goroutines was between a cache miss and the read of a rule that the others had meanwhile loaded: rule %q was returned by a query that finished before the fault and matches %+v, but is not served afterwards", G, x, q)
			}
		}
	}
	if parked.Load() {
		rec.Label("fault-while-loading:one-goroutine-held")
	} else {
		rec.Label("fault-while-loading:nobody-held")
	}
	return nil
}

func genC19(t *rapid.T) c19Case {
	lists, models := genMixedLists(t, 1)
	for i := range lists {
		lists[i].File = true
	}
	if len(lists) >= 2 && chance(t, "crossing-ids", 3) {
		// list ids that are byte offsets of lines in the other list, and vice versa:
		// (list a, offset b) and (list b, offset a) both name a rule
		offs := func(txt string) []int {
			var o []int
			pos := 0
			for _, ln := range strings.SplitAfter(txt, "\n") {
				if strings.TrimSpace(ln) != "" {
					o = append(o, pos)
				}
				pos += len(ln)
			}
			return o
		}
		oa, ob := offs(lists[0].Text), offs(lists[1].Text)
		if len(oa) > 0 && len(ob) > 0 {
			a, b := pick(t, "offset-in-first", oa), pick(t, "offset-in-second", ob)
			free := a != b
			for _, l := range lists[2:] {
				if l.ID == a || l.ID == b {
					free = false
				}
			}
			if free {
				lists[0].ID, lists[1].ID = b, a
			}
		}
	}
	c := c19Case{Lists: lists}
	if chance(t, "mass-block", 20) {
		// one query materialises more than 1024 rules (they share one shortcut window)
		var sb strings.Builder
		for i := 0; i < 1100; i++ {
			fmt.Fprintf(&sb, "adsa6^$ctag=~t%d\n", i)
		}
		massID := 424242
		for _, l := range c.Lists {
			if l.ID == massID {
				massID++
			}
		}
		c.Lists = append(c.Lists, ListSpec{ID: massID, Text: sb.String(), File: true})
		c.Queries = append(c.Queries, Q{URL: "http://x.com/adsa6", Typ: "script"}, Q{URL: "http://x.com/q?adsa6", Typ: "image"})
	}
	if chance(t, "shared-host-walk", 3) {
		// the second and third line are loaded through their own alias, the shared name is asked last
		for _, h := range []string{"alias2.example", "alias3.example", "shared.example", "alias1.example", "shared.example"} {
			c.Queries = append(c.Queries, Q{Host: true, Hostname: h})
		}
	}
	if chance(t, "block-queries", 3) {
		c.Queries = append(c.Queries, genBlockQueries(t)...)
	}
	if chance(t, "long-rule", 4) {
		// a rule text of more than a kilobyte, served before the fault
		var ds []string
		for i := 0; i < rapid.IntRange(70, 120).Draw(t, "long-rule-domains"); i++ {
			ds = append(ds, fmt.Sprintf("site%04d.example", i))
		}
		c.Lists[0].Text += "\nab$domain=example.org|" + strings.Join(ds, "|") + "\n/longrule" + strings.Repeat("x", rapid.IntRange(1000, 1100).Draw(t, "long-pattern")) + "\n"
		c.Queries = append(c.Queries, Q{URL: "http://x.com/ab", Src: "http://example.org/", Typ: "script"}, Q{URL: "http://x.com/longrule" + strings.Repeat("x", 1100), Typ: "image"},
			Q{URL: "http://x.com/ab", Src: "http://site0003.example/", Typ: "script"})
	}
	if chance(t, "domain-walk", 3) {
		// the second query walks from a bucket loaded by the first one into one that is not loaded yet
		c.Queries = append(c.Queries, Q{URL: "http://x.com/ab", Src: "http://example.org/", Typ: "script"},
			Q{URL: "http://x.com/ab", Src: "http://sub.example.org/", Typ: "script"})
	}
	n := rapid.IntRange(3, 12).Draw(t, "nqueries")
	for len(c.Queries) < n {
		if len(c.Queries) > 0 && chance(t, "repeat", 3) {
			c.Queries = append(c.Queries, c.Queries[rapid.IntRange(0, len(c.Queries)-1).Draw(t, "rep")])
			continue
		}
		q := genQNear(t, models[rapid.IntRange(0, len(models)-1).Draw(t, "for")])
		if chance(t, "fixed", 2) {
			if q.Host {
				q.Hostname = pick(t, "fh", []string{"example.org", "a.com", hostColliders[0][0], hostColliders[0][1]})
			} else {
				q.URL = pick(t, "fu", c01FixedURLs)
			}
		}
		c.Queries = append(c.Queries, q)
	}
	return c
}

func init() { register("C19", checkC19) }

func TestC19(t *testing.T) {
	// evaluations are counted per (history, fault point, query) inside the check
	runProp(t, "C19", checkC19, nil, part[c19Case]{"fault-enumeration", scale(100, 400), genC19})
}
