package props

import (
	"fmt"
	"io"
	"net"
	"net/http"
	"net/http/httptest"
	"net/url"
	"os"
	"regexp"
	"strconv"
	"strings"
	"sync"
	"time"

	"github.com/AdguardTeam/gomitmproxy"
	"github.com/AdguardTeam/urlfilter/proxy"
)

// End-to-end stage for the proxy properties: the real proxy server (loop-back
// only) in front of an in-process web server.  One instance per process; the
// filter list holds one exception rule per modifier subset of C16, addressed
// by the page name, so that a single server serves every case.

type proxyRig struct {
	client  *http.Client
	backend *httptest.Server
	err     error

	mu     sync.Mutex
	bodies map[string]proxyPage // path -> page served by the backend
}

type proxyPage struct {
	body        []byte
	contentType string
	gzipBody    []byte // served with Content-Encoding: gzip when set
}

var (
	rigOnce sync.Once
	rig     *proxyRig
)

const proxyInjectionHost = "injections.verif.example"

// c16PageName is the page whose URL only the exception rule with this modifier subset matches.
func c16PageName(mask int) string { return fmt.Sprintf("/page-%03d.html", mask) }

func getProxyRig() *proxyRig {
	rigOnce.Do(func() {
		r := &proxyRig{bodies: map[string]proxyPage{}}
		rig = r
		r.backend = httptest.NewServer(http.HandlerFunc(func(w http.ResponseWriter, req *http.Request) {
			r.mu.Lock()
			pg, ok := r.bodies[req.URL.Path]
			r.mu.Unlock()
			if !ok {
				pg = proxyPage{body: []byte("<html><head><title>t</title></head><body>hello</body></html>"), contentType: "text/html; charset=utf-8"}
			}
			w.Header().Set("Content-Type", pg.contentType)
			if pg.gzipBody != nil {
				w.Header().Set("Content-Encoding", "gzip")
				_, _ = w.Write(pg.gzipBody)
				return
			}
			_, _ = w.Write(pg.body)
		}))
		var sb strings.Builder
		for mask := 1; mask < 1<<len(c16Mods); mask++ {
			fmt.Fprintf(&sb, "@@%s$%s\n", c16PageName(mask), strings.Join(c16Subset(mask), ","))
		}
		sb.WriteString("/blocked-page.html\n")
		// cosmetic rules for the content script, and an exception that covers the front page of the host only
		sb.WriteString("##.e2e-generic\nlocalhost##.e2e-specific\n@@||localhost^|$generichide\n")
		f, err := os.CreateTemp("", "verif-proxy-filter-*.txt")
		if err != nil {
			r.err = err
			return
		}
		_, _ = f.WriteString(sb.String())
		_ = f.Close()
		l, err := net.Listen("tcp", "127.0.0.1:0")
		if err != nil {
			r.err = err
			return
		}
		addr := l.Addr().(*net.TCPAddr)
		_ = l.Close()
		srv, err := proxy.NewServer(proxy.Config{
			ProxyConfig:   gomitmproxy.Config{ListenAddr: addr},
			FiltersPaths:  map[int]string{1: f.Name()},
			InjectionHost: proxyInjectionHost,
		})
		if err != nil {
			r.err = err
			return
		}
		if err = srv.Start(); err != nil {
			r.err = err
			return
		}
		r.client = &http.Client{
			Transport: &http.Transport{Proxy: http.ProxyURL(&url.URL{Scheme: "http", Host: addr.String()}), DisableCompression: true, MaxIdleConnsPerHost: 4},
			Timeout:   20 * time.Second,
		}
	})
	return rig
}

// the injected tag as the proxy renders it: one line, with a line feed before and after
var proxyTagRe = regexp.MustCompile(`\n<script src="//` + regexp.QuoteMeta(proxyInjectionHost) + `/content-script\.js\?hostname=[^&"]*&option=(\d+)&ts=\d+"></script>\n`)

// fetch requests path through the proxy with the given Accept header ("" = none).
func (r *proxyRig) fetch(path, accept string) (body []byte, hdr http.Header, err error) {
	// the web server is addressed by name (cosmetic rules cannot name an address)
	req, err := http.NewRequest(http.MethodGet, strings.Replace(r.backend.URL, "127.0.0.1", "localhost", 1)+path, nil)
	if err != nil {
		return nil, nil, err
	}
	if accept != "" {
		req.Header.Set("Accept", accept)
	}
	resp, err := r.client.Do(req)
	if err != nil {
		return nil, nil, err
	}
	defer resp.Body.Close()
	body, err = io.ReadAll(resp.Body)
	return body, resp.Header, err
}

// splitInjected finds the injected tag: the bytes before it, the option it carries, the bytes after it.
func splitInjected(body []byte) (before []byte, option int, after []byte, found bool) {
	loc := proxyTagRe.FindSubmatchIndex(body)
	if loc == nil {
		return body, 0, nil, false
	}
	n, _ := strconv.Atoi(string(body[loc[2]:loc[3]]))
	return body[:loc[0]], n, body[loc[1]:], true
}

var proxyScriptSrcRe = regexp.MustCompile(`<script src="(//` + regexp.QuoteMeta(proxyInjectionHost) + `/content-script\.js\?[^"]*)"`)

// fetchScript requests the content script a page's injected tag points to.
func (r *proxyRig) fetchScript(page []byte) (script []byte, err error) {
	m := proxyScriptSrcRe.FindSubmatch(page)
	if m == nil {
		return nil, fmt.Errorf("no content-script tag")
	}
	req, err := http.NewRequest(http.MethodGet, "http:"+strings.ReplaceAll(string(m[1]), "&amp;", "&"), nil)
	if err != nil {
		return nil, err
	}
	resp, err := r.client.Do(req)
	if err != nil {
		return nil, err
	}
	defer resp.Body.Close()
	return io.ReadAll(resp.Body)
}

var proxyAccepts = []string{"text/html,application/xhtml+xml,application/xml;q=0.9,*/*;q=0.8", "*/*", "", "application/json, text/html;q=0.5"}
