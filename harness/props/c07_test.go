package props

import (
	"fmt"
	"strings"
	"testing"

	"github.com/AdguardTeam/urlfilter/rules"
	"pgregory.net/rapid"
)

// C07 — rule priority is a strict weak order; the winner is never outranked.

// c07Dims is the product of the features the comparison can read.  Index 0 of
// every dimension (except the exception marker) means "modifier absent".
var c07Dims = [][]string{
	{"", "@@"},
	{"", "important"},
	{"", "domain=a.com", "domain=~a.com", "domain=a.com|b.com"}, // the number of listed domains is not a criterion
	{"", "script", "script,image", "~script", "script,image,stylesheet,subdocument,object,xmlhttprequest,media,font,websocket,ping,other", "~other", "subdocument,~ping"},
	{"", "third-party", "match-case", "~third-party", "match-case,~match-case"}, // the last one: an option switched on and off
	{"", "dnstype=A", "dnstype=~A"},
	{"", "ctag=x", "ctag=~x"},
	{"", "client=1.1.1.1", "client=~1.1.1.1"},
	{"", "denyallow=z.com"},
}

func c07Text(idx []int) string {
	var m []string
	for d := 1; d < len(c07Dims); d++ {
		if v := c07Dims[d][idx[d]]; v != "" {
			m = append(m, v)
		}
	}
	s := c07Dims[0][idx[0]] + "||x.com^"
	if len(m) > 0 {
		s += "$" + strings.Join(m, ",")
	}
	return s
}

func c07Pool() (texts []string, vecs [][]int) {
	idx := make([]int, len(c07Dims))
	var rec func(d int)
	rec = func(d int) {
		if d == len(c07Dims) {
			texts = append(texts, c07Text(idx))
			vecs = append(vecs, append([]int{}, idx...))
			return
		}
		for i := range c07Dims[d] {
			idx[d] = i
			rec(d + 1)
		}
	}
	rec(0)
	return texts, vecs
}

// c07DocLevelPool: exceptions carrying every subset of the document-level
// modifiers, with and without $important and $domain.
func c07DocLevelPool() []string {
	flags := []string{"elemhide", "jsinject", "urlblock", "content", "extension", "genericblock", "generichide", "document"}
	var out []string
	for mask := 0; mask < 1<<len(flags); mask++ {
		var m []string
		for i, f := range flags {
			if mask&(1<<i) != 0 {
				m = append(m, f)
			}
		}
		for _, extra := range [][]string{nil, {"important"}, {"domain=a.com"}, {"domain=a.com", "important"}} {
			all := append(append([]string{}, m...), extra...)
			if len(all) == 0 {
				out = append(out, "@@||x.com^")
				continue
			}
			out = append(out, "@@||x.com^$"+strings.Join(all, ","))
		}
	}
	return out
}

// c07Rank is the documented criteria: verdict class, then domain-specific over
// generic, then more modifiers over fewer.  It is computed from the rule text.
func c07Rank(text string) [3]int {
	exc := strings.HasPrefix(text, "@@")
	_, opts, _ := strings.Cut(strings.TrimPrefix(text, "@@"), "$")
	imp, specific := false, false
	mods := map[string]bool{}
	if opts != "" {
		for _, o := range strings.Split(opts, ",") {
			if o == "document" {
				// shorthand for five modifiers
				for _, x := range []string{"elemhide", "jsinject", "urlblock", "content", "extension"} {
					mods[x] = true
				}
			} else {
				mods[o] = true
			}
			if o == "important" {
				imp = true
			}
			if strings.HasPrefix(o, "domain=") {
				for _, d := range strings.Split(strings.TrimPrefix(o, "domain="), "|") {
					if !strings.HasPrefix(d, "~") {
						specific = true
					}
				}
			}
		}
	}
	class := 0
	switch {
	case exc && imp:
		class = 3
	case imp:
		class = 2
	case exc:
		class = 1
	}
	sp := 0
	if specific {
		sp = 1
	}
	return [3]int{class, sp, len(mods)}
}

func rankLess(a, b [3]int) bool {
	for i := range a {
		if a[i] != b[i] {
			return a[i] < b[i]
		}
	}
	return false
}

// c07Case: Rules are compared pairwise and in triples; when Select is set all
// permutations (<= 6 rules) are fed to the selection functions.
type c07Case struct {
	Rules  []string `json:"rules"`
	Select bool     `json:"select,omitempty"`
	// DocSelect: Rules are referrer rules; the document-rule selection is checked over all permutations
	DocSelect bool `json:"doc_select,omitempty"`
	// Specials: badfilter twins of some Rules and $dnsrewrite rules; they take part in the
	// selection input but are never candidates themselves (a badfilter'ed rule is not one either)
	Specials []string `json:"specials,omitempty"`
}

func c07Parse(texts []string) ([]*rules.NetworkRule, *Violation) {
	out := make([]*rules.NetworkRule, len(texts))
	for i, s := range texts {
		// the candidates come from different lists; lower list ids also occur later in the slice
		r, err := rules.NewNetworkRule(s, []int{3, 1, 2, 1, 5, 2}[i%6])
		if err != nil {
			return nil, viol("C07", "C07:harness", "rule %q rejected: %v", s, err)
		}
		out[i] = r
	}
	return out, nil
}

func c07Laws(texts []string, rs []*rules.NetworkRule) *Violation {
	const id = "C07"
	n := len(rs)
	gt := make([][]bool, n)
	for i := range rs {
		gt[i] = make([]bool, n)
		for j := range rs {
			gt[i][j] = rs[i].IsHigherPriority(rs[j])
		}
	}
	for i := 0; i < n; i++ {
		if gt[i][i] {
			return viol(id, "C07:irreflexive", "%q outranks itself", texts[i])
		}
	}
	for i := 0; i < n; i++ {
		for j := 0; j < n; j++ {
			if i != j && gt[i][j] && gt[j][i] {
				return viol(id, "C07:asymmetric", "%q and %q outrank each other", texts[i], texts[j])
			}
			want := rankLess(c07Rank(texts[j]), c07Rank(texts[i]))
			if gt[i][j] != want {
				return viol(id, "C07:rank-mismatch", "IsHigherPriority(%q, %q)=%v but documented criteria (class, specific, #modifiers) %v vs %v say %v",
					texts[i], texts[j], gt[i][j], c07Rank(texts[i]), c07Rank(texts[j]), want)
			}
		}
	}
	inc := func(a, b int) bool { return !gt[a][b] && !gt[b][a] }
	for i := 0; i < n; i++ {
		for j := 0; j < n; j++ {
			for k := 0; k < n; k++ {
				if gt[i][j] && gt[j][k] && !gt[i][k] {
					return viol(id, "C07:intransitive", "%q > %q > %q but not first > third", texts[i], texts[j], texts[k])
				}
				if inc(i, j) && inc(j, k) && !inc(i, k) {
					return viol(id, "C07:incomparability-intransitive", "%q ~ %q ~ %q but first and third are ordered", texts[i], texts[j], texts[k])
				}
			}
		}
	}
	return nil
}

func permutations(n int, f func(p []int) bool) {
	p := make([]int, n)
	for i := range p {
		p[i] = i
	}
	var rec func(k int) bool
	rec = func(k int) bool {
		if k == n {
			return f(p)
		}
		for i := k; i < n; i++ {
			p[k], p[i] = p[i], p[k]
			if !rec(k + 1) {
				return false
			}
			p[k], p[i] = p[i], p[k]
		}
		return true
	}
	rec(0)
}

func checkC07(c c07Case, rec *Rec) *Violation {
	const id = "C07"
	rs, v := c07Parse(c.Rules)
	if v != nil {
		return v
	}
	// the order does not depend on whether a rule has been evaluated before (patterns are compiled on first use)
	for _, r := range rs {
		_ = r.Match(rules.NewRequest("http://x.com/", "http://a.com/", rules.TypeScript))
	}
	if c.DocSelect {
		rec.NonTrivial("doc|"+strings.Join(c.Rules, "\n"), c)
		return c07CheckDocSelection(c.Rules)
	}
	if v = c07Laws(c.Rules, rs); v != nil {
		return v
	}
	if !c.Select || len(rs) == 0 || len(rs)+len(c.Specials) > 6 {
		return nil
	}
	rec.NonTrivial("sel|"+strings.Join(c.Rules, "\n")+"|"+strings.Join(c.Specials, "\n"), c)
	specials, v := c07Parse(c.Specials)
	if v != nil {
		return v
	}
	// effective candidates: not disabled by a badfilter twin (same text apart from the modifier)
	disabled := map[string]bool{}
	for _, s := range c.Specials {
		if strings.HasSuffix(s, ",badfilter") {
			disabled[strings.TrimSuffix(s, ",badfilter")] = true
		} else if strings.HasSuffix(s, "$badfilter") {
			disabled[strings.TrimSuffix(s, "$badfilter")] = true
		}
	}
	var effTexts []string
	var eff []*rules.NetworkRule
	for i, s := range c.Rules {
		if !disabled[s] {
			effTexts = append(effTexts, s)
			eff = append(eff, rs[i])
		}
	}
	var res *Violation
	var rank0 *[3]int
	nperm := 0
	all := append(append([]*rules.NetworkRule{}, rs...), specials...)
	// with a $genericblock exception on the referrer: generic BLOCKING candidates leave the field, nothing else does
	gb, _ := rules.NewNetworkRule("@@||a.com^$genericblock", 9)
	var eff2 []*rules.NetworkRule
	var eff2Texts []string
	for i, o := range eff {
		rk := c07Rank(effTexts[i])
		if rk[0]%2 == 0 && rk[1] == 0 {
			continue // a blocking rule without a permitted domain
		}
		eff2, eff2Texts = append(eff2, o), append(eff2Texts, effTexts[i])
	}
	if len(all) <= 5 {
		permutations(len(all), func(p []int) bool {
			cand := make([]*rules.NetworkRule, len(p))
			for i, x := range p {
				cand[i] = all[x]
			}
			w := rules.NewMatchingResult(cand, []*rules.NetworkRule{gb}).BasicRule
			if w == nil {
				if len(eff2) > 0 {
					res = viol(id, "C07:no-winner:genericblock-referrer", "referrer under $genericblock: no basic rule for candidates %q although %q remain", c.Rules, eff2Texts)
				}
				return res == nil
			}
			if !inList(w.Text(), eff2Texts) {
				res = viol(id, "C07:winner-not-a-candidate:genericblock-referrer", "referrer under $genericblock: selected %q, which is not among the remaining candidates %q (order %v of %q)", w.Text(), eff2Texts, p, c.Rules)
				return false
			}
			for _, o := range eff2 {
				if o.IsHigherPriority(w) {
					res = viol(id, "C07:winner-outranked:genericblock-referrer", "referrer under $genericblock: selected %q although the remaining candidate %q outranks it (order %v of %q)", w.Text(), o.Text(), p, c.Rules)
					return false
				}
			}
			return true
		})
		if res != nil {
			return res
		}
	}
	// with a $urlblock AND a $genericblock exception on the referrer (two document-level rules of equal rank, in either
	// order): every blocking candidate leaves the field, whichever of the two is listed first
	ub, _ := rules.NewNetworkRule("@@||a.com^$urlblock", 9)
	var eff3Texts []string
	for i := range eff {
		if c07Rank(effTexts[i])[0]%2 == 1 {
			eff3Texts = append(eff3Texts, effTexts[i])
		}
	}
	for _, src := range [][]*rules.NetworkRule{{gb, ub}, {ub, gb}} {
		w := rules.NewMatchingResult(append([]*rules.NetworkRule{}, all...), src).BasicRule
		switch {
		case w == nil && len(eff3Texts) > 0:
			return viol(id, "C07:no-winner:urlblock-referrer", "referrer under %q: no basic rule for candidates %q although the exceptions %q remain", netTexts(src), c.Rules, eff3Texts)
		case w != nil && !inList(w.Text(), eff3Texts):
			return viol(id, "C07:winner-not-a-candidate:urlblock-referrer", "referrer under %q: selected %q, which is not among the remaining candidates %q (of %q)", netTexts(src), w.Text(), eff3Texts, c.Rules)
		}
	}
	permutations(len(all), func(p []int) bool {
		nperm++
		cand := make([]*rules.NetworkRule, len(p))
		for i, x := range p {
			cand[i] = all[x]
		}
		for which, w := range []*rules.NetworkRule{
			rules.NewMatchingResult(append([]*rules.NetworkRule{}, cand...), nil).GetBasicResult(),
			rules.GetDNSBasicRule(append([]*rules.NetworkRule{}, cand...)),
		} {
			name := []string{"NewMatchingResult", "GetDNSBasicRule"}[which]
			if w == nil {
				if len(eff) == 0 {
					continue
				}
				res = viol(id, "C07:no-winner", "%s returned no rule for candidates %q (specials %q)", name, c.Rules, c.Specials)
				return false
			}
			if !inList(w.Text(), effTexts) {
				res = viol(id, "C07:winner-not-a-candidate", "%s selected %q, which is disabled or not a candidate (candidates %q, specials %q)", name, w.Text(), c.Rules, c.Specials)
				return false
			}
			for _, o := range eff {
				if o.IsHigherPriority(w) {
					res = viol(id, "C07:winner-outranked", "%s selected %q although candidate %q outranks it (order %v of %q)", name, w.Text(), o.Text(), p, c.Rules)
					return false
				}
			}
			rk := c07Rank(w.Text())
			if rank0 == nil {
				rank0 = &rk
			} else if *rank0 != rk {
				res = viol(id, "C07:winner-rank-varies", "%s: winner %q has rank %v in order %v but another order/entry point gave rank %v (candidates %q)", name, w.Text(), rk, p, *rank0, c.Rules)
				return false
			}
			// the winner must be of maximal documented rank
			for _, o := range effTexts {
				if rankLess(rk, c07Rank(o)) {
					res = viol(id, "C07:winner-not-maximal", "%s selected %q (rank %v) although %q has rank %v", name, w.Text(), rk, o, c07Rank(o))
					return false
				}
			}
		}
		return true
	})
	rec.LabelN("permutations_checked", nperm)
	return res
}

// c07DocPool: referrer rules competing for the document-level result.
var c07DocPool = []string{"@@||x.com^$urlblock", "@@||x.com^$genericblock", "@@||x.com^$urlblock,important", "@@||x.com^$genericblock,important",
	"@@||x.com^$document", "@@||x.com^$urlblock,stealth", "@@||x.com^$genericblock,domain=a.com", "@@||x.com^$urlblock,ctag=x,client=1.1.1.1",
	"@@||x.com^$elemhide", "||x.com^", "@@||x.com^$stealth"}

// c07CheckDocSelection: the document rule chosen from the referrer rules is a
// document-level exception that no other such candidate outranks, for every order.
func c07CheckDocSelection(texts []string) *Violation {
	const id = "C07"
	rs, v := c07Parse(texts)
	if v != nil {
		return v
	}
	isDoc := func(s string) bool {
		return strings.HasPrefix(s, "@@") && (strings.Contains(s, "urlblock") || strings.Contains(s, "genericblock") || strings.Contains(s, "document"))
	}
	var docs []*rules.NetworkRule
	for i, s := range texts {
		if isDoc(s) {
			docs = append(docs, rs[i])
		}
	}
	var res *Violation
	permutations(len(rs), func(p []int) bool {
		src := make([]*rules.NetworkRule, len(p))
		for i, x := range p {
			src[i] = rs[x]
		}
		d := rules.NewMatchingResult(nil, src).DocumentRule
		if d == nil {
			if len(docs) > 0 {
				res = viol(id, "C07:no-document-rule", "referrer rules %q: no DocumentRule although document-level exceptions are present", netTexts(src))
			}
			return res == nil
		}
		if !isDoc(d.Text()) {
			res = viol(id, "C07:document-rule-not-a-candidate", "referrer rules %q: DocumentRule %q is not a document-level exception", netTexts(src), d.Text())
			return false
		}
		for _, o := range docs {
			if o.IsHigherPriority(d) {
				res = viol(id, "C07:document-rule-outranked", "referrer rules %q: DocumentRule %q is outranked by %q", netTexts(src), d.Text(), o.Text())
				return false
			}
		}
		return true
	})
	return res
}

// c07WithBadRegex gives some of the rules a pattern that is a regular
// expression Go cannot compile: such a rule never matches, but its priority is
// defined by its modifiers like any other rule's.
func c07WithBadRegex(t *rapid.T, rs []string) []string {
	if !chance(t, "uncompilable-pattern-or-extra-flags", 3) {
		return rs
	}
	out := append([]string{}, rs...)
	seen := map[string]bool{}
	for _, s := range out {
		seen[s] = true
	}
	for i, s := range out {
		if !strings.HasPrefix(s, "@@") && chance(t, "empty-or-mp4", 6) {
			// two more flag modifiers that blocking rules may carry
			f := pick(t, "flag", []string{"empty", "mp4"})
			n := s + "," + f
			if !strings.Contains(s, "$") {
				n = s + "$" + f
			}
			if !seen[n] {
				seen[n] = true
				out[i], s = n, n
			}
		}
		if chance(t, "bad-regex-here", 2) {
			if n := strings.Replace(s, "||x.com^", "/x[com/", 1); !seen[n] {
				seen[n] = true
				out[i] = n
			}
		}
	}
	return out
}

func init() { register("C07", checkC07) }

func TestC07(t *testing.T) {
	texts, vecs := c07Pool()
	exhaustive := func(rec *Rec) *replayFile {
		if shard() != 0 {
			return nil
		}
		rs, v := c07Parse(texts)
		if v != nil {
			return exhaustiveFail("C07", c07Case{Rules: texts}, v)
		}
		ranks := make([][3]int, len(texts))
		for i, s := range texts {
			ranks[i] = c07Rank(s)
		}
		fail := func(c c07Case) *replayFile {
			v := rec.filter(safeCheck("C07", checkC07, c, rec))
			if v == nil {
				return nil
			}
			return exhaustiveFail("C07", c, v)
		}
		// pairs over the whole pool
		n := len(rs)
		for i := 0; i < n; i++ {
			for j := 0; j < n; j++ {
				g := rs[i].IsHigherPriority(rs[j])
				bad := g != rankLess(ranks[j], ranks[i]) || (i == j && g) || (g && rs[j].IsHigherPriority(rs[i]))
				if bad {
					if rf := fail(c07Case{Rules: []string{texts[i], texts[j]}}); rf != nil {
						return rf
					}
				}
			}
			rec.NonTrivial("row|"+texts[i], map[string]any{"pool_rule": texts[i], "compared_with": "all pool rules, both directions"})
		}
		rec.EvalN(n * n)
		rec.LabelN("pairs_exhaustive", n*n)
		// exceptions with every subset of the document-level modifiers ($document is shorthand for five of them)
		dtexts := c07DocLevelPool()
		drs, v := c07Parse(dtexts)
		if v != nil {
			return exhaustiveFail("C07", c07Case{Rules: dtexts}, v)
		}
		dranks := make([][3]int, len(dtexts))
		for i, s := range dtexts {
			dranks[i] = c07Rank(s)
		}
		for i := range drs {
			for j := range drs {
				g := drs[i].IsHigherPriority(drs[j])
				if g != rankLess(dranks[j], dranks[i]) || (g && drs[j].IsHigherPriority(drs[i])) {
					if rf := fail(c07Case{Rules: []string{dtexts[i], dtexts[j]}}); rf != nil {
						return rf
					}
				}
			}
			if i%16 == 5 {
				rec.NonTrivial("docrow|"+dtexts[i], map[string]any{"pool_rule": dtexts[i], "compared_with": "all exceptions with document-level modifiers, both directions"})
			}
		}
		rec.EvalN(len(drs) * len(drs))
		rec.LabelN("document_level_pairs_exhaustive", len(drs)*len(drs))
		// every document-level exception against every rule of the main pool of ANOTHER verdict class (important
		// exception > important block > exception > block), both directions; within a class the two pools count
		// their modifiers differently, so only the class order is compared here
		crossPairs := 0
		for i := range drs {
			for j := range rs {
				if dranks[i][0] == ranks[j][0] {
					continue
				}
				crossPairs += 2
				g, h := drs[i].IsHigherPriority(rs[j]), rs[j].IsHigherPriority(drs[i])
				if g != (dranks[i][0] > ranks[j][0]) || h != (ranks[j][0] > dranks[i][0]) {
					if rf := fail(c07Case{Rules: []string{dtexts[i], texts[j]}}); rf != nil {
						return rf
					}
				}
			}
		}
		rec.EvalN(crossPairs)
		rec.LabelN("document_level_against_pool_pairs_exhaustive", crossPairs)
		// adding a modifier makes the rule strictly higher
		index := map[string]int{}
		for i, s := range texts {
			index[s] = i
		}
		added := 0
		for i, vec := range vecs {
			for d := 1; d < len(c07Dims); d++ {
				if vec[d] != 0 {
					continue
				}
				for alt := 1; alt < len(c07Dims[d]); alt++ {
					if d == 3 && (alt == 2 || alt == 4) {
						continue // two content types at once: not "one modifier added"
					}
					v2 := append([]int{}, vec...)
					v2[d] = alt
					j := index[c07Text(v2)]
					added++
					if !rs[j].IsHigherPriority(rs[i]) || rs[i].IsHigherPriority(rs[j]) {
						v := viol("C07", "C07:add-modifier", "adding $%s to %q does not make it strictly higher (new>old=%v, old>new=%v)",
							c07Dims[d][alt], texts[i], rs[j].IsHigherPriority(rs[i]), rs[i].IsHigherPriority(rs[j]))
						if v = rec.filter(v); v != nil {
							return exhaustiveFail("C07", c07Case{Rules: []string{texts[i], texts[j]}}, v)
						}
					}
				}
			}
		}
		rec.EvalN(added)
		rec.LabelN("add_modifier_pairs", added)
		// triples over a sub-pool
		step := scale(24, 12)
		var sub []int
		for i := 0; i < n; i += step {
			sub = append(sub, i)
		}
		// also the rules most likely to tie: a stride that is coprime to the dimension sizes
		m := len(sub)
		gt := make([][]bool, m)
		for a := range sub {
			gt[a] = make([]bool, m)
			for b := range sub {
				gt[a][b] = rs[sub[a]].IsHigherPriority(rs[sub[b]])
			}
		}
		inc := func(a, b int) bool { return !gt[a][b] && !gt[b][a] }
		for a := 0; a < m; a++ {
			for b := 0; b < m; b++ {
				for c := 0; c < m; c++ {
					if (gt[a][b] && gt[b][c] && !gt[a][c]) || (inc(a, b) && inc(b, c) && !inc(a, c)) {
						if rf := fail(c07Case{Rules: []string{texts[sub[a]], texts[sub[b]], texts[sub[c]]}}); rf != nil {
							return rf
						}
					}
				}
			}
		}
		rec.EvalN(m * m * m)
		rec.LabelN(fmt.Sprintf("triples_exhaustive_over_subpool_of_%d", m), m*m*m)
		return nil
	}
	genLaws := func(t *rapid.T) c07Case {
		n := rapid.IntRange(2, 5).Draw(t, "n")
		var rs []string
		for i := 0; i < n; i++ {
			rs = append(rs, texts[rapid.IntRange(0, len(texts)-1).Draw(t, "rule")])
		}
		return c07Case{Rules: c07WithBadRegex(t, rs)}
	}
	genSelect := func(t *rapid.T) c07Case {
		n := rapid.IntRange(2, 6).Draw(t, "n")
		seen := map[string]bool{}
		var rs []string
		// draw around one rule so that ties and near-ties are frequent
		base := vecs[rapid.IntRange(0, len(vecs)-1).Draw(t, "base")]
		for i := 0; i < n; i++ {
			v := append([]int{}, base...)
			k := rapid.IntRange(0, 3).Draw(t, "nchanges")
			for x := 0; x < k; x++ {
				d := rapid.IntRange(0, len(c07Dims)-1).Draw(t, "dim")
				v[d] = rapid.IntRange(0, len(c07Dims[d])-1).Draw(t, "val")
			}
			s := c07Text(v)
			if !seen[s] {
				seen[s] = true
				rs = append(rs, s)
			}
		}
		rs = c07WithBadRegex(t, rs)
		c := c07Case{Rules: rs, Select: true}
		if len(rs) <= 4 && chance(t, "specials", 3) {
			x := rs[rapid.IntRange(0, len(rs)-1).Draw(t, "twin-of")]
			if strings.Contains(x, "$") {
				c.Specials = append(c.Specials, x+",badfilter")
			} else {
				c.Specials = append(c.Specials, x+"$badfilter")
			}
			if len(rs) <= 3 && chance(t, "stealth", 2) {
				c.Specials = append(c.Specials, "@@||x.com^$stealth")
			} else if len(rs) <= 3 && chance(t, "rewrite", 2) {
				c.Specials = append(c.Specials, pick(t, "rw", []string{"||x.com^$dnsrewrite=1.2.3.4,important", "@@||x.com^$dnsrewrite", "||x.com^$dnsrewrite=NXDOMAIN"}))
			}
		}
		return c
	}
	runProp(t, "C07", checkC07, exhaustive,
		part[c07Case]{"laws-sampled", scale(3000, 30000), genLaws},
		part[c07Case]{"selection", scale(1500, 12000), genSelect},
		part[c07Case]{"document-rule-selection", scale(600, 4000), func(t *rapid.T) c07Case {
			return c07Case{Rules: subsetOf(t, "doc-cands", c07DocPool, 5), DocSelect: true}
		}})
}
