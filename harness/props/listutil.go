package props

import (
	"fmt"
	"os"
	"strings"

	"github.com/AdguardTeam/urlfilter/filterlist"
	"github.com/AdguardTeam/urlfilter/filterutil"
	"github.com/AdguardTeam/urlfilter/rules"
	"pgregory.net/rapid"
)

// ListSpec is one filter list as a value.
type ListSpec struct {
	ID             int    `json:"id"`
	Text           string `json:"text"`
	File           bool   `json:"file,omitempty"`
	IgnoreCosmetic bool   `json:"ignore_cosmetic,omitempty"`
}

var extremeIDs = []int{-2147483648, -1, 0, 1, 2147483647, 77, 65536, -65536}

// genListIDs draws n distinct list ids from the extreme set and random int32s.
func genListIDs(t *rapid.T, n int) []int {
	seen := map[int]bool{}
	var out []int
	for len(out) < n {
		var id int
		if chance(t, "random-id", 4) {
			id = int(rapid.Int32().Draw(t, "id"))
		} else {
			id = pick(t, "extreme-id", extremeIDs)
		}
		if !seen[id] {
			seen[id] = true
			out = append(out, id)
		}
	}
	return out
}

// buildStorage creates the storage for the lists; file-backed lists are
// written to temporary files that cleanup removes.
func buildStorage(lists []ListSpec) (st *filterlist.RuleStorage, cleanup func(), err error) {
	var files []string
	var rl []filterlist.RuleList
	cleanup = func() {
		if st != nil {
			_ = st.Close()
		}
		for _, f := range files {
			_ = os.Remove(f)
		}
	}
	for _, l := range lists {
		if l.File {
			f, ferr := os.CreateTemp("", "verif-list-*.txt")
			if ferr != nil {
				cleanup()
				return nil, func() {}, ferr
			}
			_, _ = f.WriteString(l.Text)
			_ = f.Close()
			files = append(files, f.Name())
			fl, ferr := filterlist.NewFileRuleList(l.ID, f.Name(), l.IgnoreCosmetic)
			if ferr != nil {
				cleanup()
				return nil, func() {}, ferr
			}
			rl = append(rl, fl)
		} else {
			rl = append(rl, &filterlist.StringRuleList{ID: l.ID, RulesText: l.Text, IgnoreCosmetic: l.IgnoreCosmetic})
		}
	}
	st, err = filterlist.NewRuleStorage(rl)
	if err != nil {
		for _, r := range rl {
			_ = r.Close()
		}
		st = nil
		cleanup()
		return nil, func() {}, err
	}
	return st, cleanup, nil
}

// splitLines splits list text the way a line reader does.
func splitLines(text string) []string {
	if text == "" {
		return nil
	}
	lines := strings.SplitAfter(text, "\n")
	if lines[len(lines)-1] == "" {
		lines = lines[:len(lines)-1]
	}
	return lines
}

// parsedLine is a line parsed afresh, independent of any storage.
type parsedLine struct {
	listID int
	text   string
	rule   rules.Rule
}

func parseAll(lists []ListSpec) []parsedLine {
	var out []parsedLine
	for _, l := range lists {
		for _, ln := range splitLines(l.Text) {
			r, err := rules.NewRule(ln, l.ID)
			if err != nil || r == nil {
				continue
			}
			if _, isCosm := r.(*rules.CosmeticRule); isCosm && l.IgnoreCosmetic {
				continue
			}
			out = append(out, parsedLine{listID: l.ID, text: r.Text(), rule: r})
		}
	}
	return out
}

// distribute puts lines into n lists at generated positions.
func distribute(t *rapid.T, lines []string, n int) []ListSpec {
	ids := genListIDs(t, n)
	texts := make([][]string, n)
	for _, ln := range lines {
		k := rapid.IntRange(0, n-1).Draw(t, "list")
		texts[k] = append(texts[k], ln)
	}
	out := make([]ListSpec, n)
	for i := range out {
		eol := "\n"
		if chance(t, "crlf-list", 5) {
			eol = "\r\n"
		}
		txt := strings.Join(texts[i], eol)
		if len(texts[i]) > 0 && !chance(t, "no-final-newline", 3) {
			txt += eol
		}
		out[i] = ListSpec{ID: ids[i], Text: txt, File: chance(t, "file-backed", 4)}
	}
	return out
}

// ---------------------------------------------------------------------------
// FastHash colliders (DESIGN.md 3.1): distinct strings with equal djb2-xor hash

type colliderPair [2]string

func findColliders(prefix, suffix string, want int) []colliderPair {
	const alpha = "abcdefghijklmnopqrstuvwxyz0123456789"
	seen := map[uint32]string{}
	var out []colliderPair
	for _, a := range alpha {
		for _, b := range alpha {
			for _, c := range alpha {
				s := prefix + string(a) + string(b) + string(c) + suffix
				h := filterutil.FastHash(s)
				if o, ok := seen[h]; ok && o != s {
					out = append(out, colliderPair{o, s})
					if len(out) >= want {
						return out
					}
				} else {
					seen[h] = s
				}
			}
		}
	}
	return out
}

var (
	windowColliders  = findColliders("ad", "", 6)    // 5-byte shortcut windows
	hostColliders    = findColliders("h", ".com", 6) // host names
	domainColliders  = findColliders("d", ".org", 4) // $domain values
	seqTextColliders = findColliders("x^", "^", 4)   // whole rule texts that land in the sequential table
)

// zeroHashNames are host/domain names whose FastHash is 0, the value the hash
// function also returns for the empty string (meet in the middle over the
// djb2-xor recurrence h' = h*33 ^ b; every result is verified with FastHash).
var zeroHashNames = findZeroHashNames(".com", 4)

func findZeroHashNames(suffix string, want int) []string {
	const letters = "abcdefghijklmnopqrstuvwxyz"
	const inv33 = uint32(1041204193) // 33 * inv33 == 1 (mod 2^32)
	back := func(h uint32, tail string) uint32 {
		for i := len(tail) - 1; i >= 0; i-- {
			h = (h ^ uint32(tail[i])) * inv33
		}
		return h
	}
	need := map[uint32]string{}
	var t [4]byte
	for _, a := range letters {
		for _, b := range letters {
			for _, c := range letters {
				for _, d := range letters {
					t = [4]byte{byte(a), byte(b), byte(c), byte(d)}
					tail := string(t[:]) + suffix
					need[back(0, tail)] = tail
				}
			}
		}
	}
	var out []string
	for _, a := range letters {
		for _, b := range letters {
			for _, c := range letters {
				for _, d := range letters {
					head := string([]byte{byte(a), byte(b), byte(c), byte(d)})
					if tail, ok := need[filterutil.FastHash(head)]; ok {
						if name := head + tail; filterutil.FastHash(name) == 0 {
							out = append(out, name)
							if len(out) >= want {
								return out
							}
						}
					}
				}
			}
		}
	}
	return out
}

// findShortRuleWithHash builds a rule text abcd^efgh^<suffix> (every literal run four bytes long, so the
// rule lands in the sequential table) whose FastHash equals target; "" if the search finds none.
func findShortRuleWithHash(target uint32, suffix string) string {
	const letters = "abcdefghijklmnopqrstuvwxyz"
	const inv33 = uint32(1041204193)
	back := func(h uint32, tail string) uint32 {
		for i := len(tail) - 1; i >= 0; i-- {
			h = (h ^ uint32(tail[i])) * inv33
		}
		return h
	}
	part := func(a, b, c, d rune) string { return string([]rune{a, b, c, d, '^'}) }
	need := map[uint32]string{}
	for _, a := range letters {
		for _, b := range letters {
			for _, c := range letters {
				for _, d := range letters {
					tail := part(a, b, c, d) + suffix
					need[back(target, tail)] = tail
				}
			}
		}
	}
	for _, a := range letters {
		for _, b := range letters {
			for _, c := range letters {
				for _, d := range letters {
					head := part(a, b, c, d)
					if tail, ok := need[filterutil.FastHash(head)]; ok {
						if s := head + tail; filterutil.FastHash(s) == target {
							return s
						}
					}
				}
			}
		}
	}
	return ""
}

func init() {
	if len(zeroHashNames) == 0 {
		panic("no name with FastHash 0 found")
	}
	if len(windowColliders) == 0 || len(hostColliders) == 0 {
		panic(fmt.Sprintf("no FastHash colliders found: %d %d", len(windowColliders), len(hostColliders)))
	}
}
