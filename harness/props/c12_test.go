package props

import (
	"bufio"
	"fmt"
	"github.com/AdguardTeam/urlfilter/filterlist"
	"os"
	"path/filepath"
	"strings"
	"sync"
	"testing"
	"time"

	"github.com/AdguardTeam/urlfilter"
	"github.com/AdguardTeam/urlfilter/rules"
	"pgregory.net/rapid"
)

// C12 — parsing and matching never crash; comments and rejected lines are inert.

type c12Case struct {
	// line robustness
	Line []byte `json:"line,omitempty"`
	// inertness: Rules with Noise[i] inserted before Rules[Pos[i]]
	Rules []string `json:"rules,omitempty"`
	Noise []string `json:"noise,omitempty"`
	Pos   []int    `json:"pos,omitempty"`
	CRLF  bool     `json:"crlf,omitempty"`
	File  bool     `json:"file,omitempty"`             // file-backed lists
	NoEOL bool     `json:"no_final_newline,omitempty"` // the list does not end with a line feed
	Reqs  []Q      `json:"reqs"`
}

func c12Answers(text string, reqs []Q, file bool) (string, error) {
	// the list id depends on the requests only (the same for a list and its noisy variant); with id 0 the storage
	// index of a rule on the first line is 0
	st, cleanup, err := buildStorage([]ListSpec{{ID: []int{0, 7, -1}[len(reqs)%3], Text: text, File: file}})
	if err != nil {
		return "", err
	}
	defer cleanup()
	e := urlfilter.NewEngine(st)
	ne := urlfilter.NewNetworkEngine(st)
	de := urlfilter.NewDNSEngine(st)
	var sb strings.Builder
	for _, q := range reqs {
		if q.Host {
			res, m := de.MatchRequest(mkDNSReq(q))
			fmt.Fprintf(&sb, "D matched=%v basic=%s all=%q rewrites=%q", m, c08Class(res.NetworkRule), sortedList(netTexts(res.NetworkRules)), sortedList(netTexts(res.DNSRewrites())))
			for _, h := range res.HostRulesV4 {
				fmt.Fprintf(&sb, " 4:%q", h.Text())
			}
			for _, h := range res.HostRulesV6 {
				fmt.Fprintf(&sb, " 6:%q", h.Text())
			}
			cr := e.GetCosmeticResult(q.Hostname, rules.CosmeticOptionAll)
			fmt.Fprintf(&sb, " C %q %q\n", sortedList(cr.ElementHiding.Generic), sortedList(cr.ElementHiding.Specific))
			continue
		}
		req := mkReq(q)
		mr := e.MatchRequest(req)
		basic := mr.GetBasicResult()
		bt := "<nil>"
		if basic != nil {
			bt = basic.Text()
		}
		fmt.Fprintf(&sb, "W all=%q basic=%q option=%d\n", sortedList(netTexts(ne.MatchAll(mkReq(q)))), bt, mr.GetCosmeticOption())
	}
	return sb.String(), nil
}

func sortedList(xs []string) []string {
	out := append([]string{}, xs...)
	for i := 1; i < len(out); i++ {
		for j := i; j > 0 && out[j] < out[j-1]; j-- {
			out[j], out[j-1] = out[j-1], out[j]
		}
	}
	return out
}

// c12Deadline: parsing a line or answering a request takes microseconds; a
// case that has not finished after this long does not terminate.
const c12Deadline = 20 * time.Second

// checkC12 runs the case under a watchdog ("terminates" is part of the property).
func checkC12(c c12Case, rec *Rec) *Violation {
	type outcome struct {
		v   *Violation
		pan any
	}
	done := make(chan outcome, 1)
	go func() {
		defer func() {
			if e := recover(); e != nil {
				done <- outcome{pan: e}
			}
		}()
		done <- outcome{v: checkC12Inner(c, rec)}
	}()
	select {
	case o := <-done:
		if o.pan != nil {
			panic(o.pan) // reported by the caller like any other panic
		}
		return o.v
	case <-time.After(c12Deadline):
		what := "inert-line case"
		if c.Rules == nil {
			what = fmt.Sprintf("line %q", clipStr(string(c.Line)))
		}
		return viol("C12", "C12:does-not-terminate", "%s: parsing, matching or engine construction did not finish within %v", what, c12Deadline)
	}
}

func checkC12Inner(c c12Case, rec *Rec) *Violation {
	const id = "C12"
	if c.Rules == nil {
		return checkC12Line(c, rec)
	}
	// the precondition: every noise line is blank, a comment or rejected
	for _, n := range c.Noise {
		if strings.ContainsAny(n, "\n") {
			rec.Label("skipped:noise-with-newline")
			return nil
		}
		r, err := rules.NewRule(n, 7)
		if c12IsCommentText(strings.TrimSpace(n)) {
			// a comment by the documented syntax, whatever the parser makes of it
			if r != nil {
				return viol(id, "C12:comment-yields-rule", "comment line %q yields a %s rule", clipStr(n), ruleKind(r))
			}
			continue
		}
		if err == nil && r != nil {
			rec.Label("skipped:noise-line-is-a-rule")
			return nil
		}
	}
	eol := "\n"
	base := strings.Join(c.Rules, "\n") + "\n"
	var sb strings.Builder
	for i, r := range c.Rules {
		for k, p := range c.Pos {
			if p == i && k < len(c.Noise) {
				sb.WriteString(c.Noise[k] + eol)
			}
		}
		sb.WriteString(r + eol)
	}
	for k, p := range c.Pos {
		if p >= len(c.Rules) && k < len(c.Noise) {
			sb.WriteString(c.Noise[k] + eol)
		}
	}
	noisy := sb.String()
	if c.CRLF {
		noisy = strings.ReplaceAll(noisy, "\n", "\r\n")
	}
	if c.NoEOL {
		base, noisy = strings.TrimRight(base, "\r\n"), strings.TrimRight(noisy, "\r\n")
	}
	a, err := c12Answers(base, c.Reqs, c.File)
	if err != nil {
		return viol(id, "C12:harness", "storage: %v", err)
	}
	b, err := c12Answers(noisy, c.Reqs, c.File)
	if err != nil {
		return viol(id, "C12:harness", "storage: %v", err)
	}
	if (len(c.Noise) > 0 || c.CRLF) && strings.Contains(a, "\"") {
		rec.NonTrivial("inert|"+noisy, map[string]any{"rules": c.Rules, "noise": c.Noise, "positions": c.Pos, "crlf": c.CRLF})
	}
	if a != b {
		return viol(id, "C12:noise-changes-results", "answers differ after inserting inert lines %q at %v (crlf=%v) into %q:\n%s\nvs\n%s", c.Noise, c.Pos, c.CRLF, c.Rules, clipStr(a), clipStr(b))
	}
	rec.Label("inertness-case")
	return nil
}

// c12IsCommentText is the documented comment syntax: "!" comments, and "#"
// comments (hosts-file style) unless the line opens with a cosmetic rule marker.
func c12IsCommentText(trimmed string) bool {
	if trimmed == "" || (trimmed[0] != '!' && trimmed[0] != '#') {
		return false
	}
	if trimmed[0] == '!' {
		return true
	}
	for _, m := range []string{"##", "#@#", "#?#", "#@?#", "#$#", "#@$#", "#$?#", "#@$?#", "#%#", "#@%#"} {
		if strings.HasPrefix(trimmed, m) {
			return false
		}
	}
	return true
}

func checkC12Line(c c12Case, rec *Rec) *Violation {
	const id = "C12"
	line := string(c.Line)
	r, err := rules.NewRule(line, 42)
	// the specific constructors must not crash either
	_, _ = rules.NewNetworkRule(line, 42)
	_, _ = rules.NewHostRule(line, 42)
	_, _ = rules.NewCosmeticRule(line, 42)
	trimmed := strings.TrimSpace(line)
	if trimmed == "" {
		// nothing to parse: the engines over a storage without any list are built and queried instead
		st, serr := filterlist.NewRuleStorage(nil)
		if serr != nil {
			return viol(id, "C12:harness", "storage: %v", serr)
		}
		e, ne, de := urlfilter.NewEngine(st), urlfilter.NewNetworkEngine(st), urlfilter.NewDNSEngine(st)
		for _, q := range c.Reqs {
			if q.Host {
				_, _ = de.MatchRequest(mkDNSReq(q))
				_ = e.GetCosmeticResult(q.Hostname, rules.CosmeticOptionAll)
			} else {
				_ = e.MatchRequest(mkReq(q))
				_ = ne.MatchAll(mkReq(q))
			}
		}
		rec.Label("line:blank(engines-without-lists)")
	}
	if c12IsCommentText(trimmed) {
		rec.Label("line:comment")
		if r != nil {
			return viol(id, "C12:comment-yields-rule", "comment line %q yields a %s rule", clipStr(line), ruleKind(r))
		}
	}
	switch {
	case err != nil:
		rec.Label("line:error")
		return nil
	case r == nil:
		rec.Label("line:nil")
		if trimmed != "" && trimmed[0] != '!' && trimmed[0] != '#' {
			return viol(id, "C12:rule-swallowed", "line %q yields neither a rule nor an error although it is not blank or a comment", clipStr(line))
		}
		return nil
	}
	rec.Label("line:" + ruleKind(r))
	if r.Text() != trimmed {
		return viol(id, "C12:text-differs", "line %q: Text()=%q, want the trimmed line", clipStr(line), clipStr(r.Text()))
	}
	if r.GetFilterListID() != 42 {
		return viol(id, "C12:list-id", "line %q: list id %d, want 42", clipStr(line), r.GetFilterListID())
	}
	matched := false
	switch ru := r.(type) {
	case *rules.NetworkRule:
		for _, q := range c.Reqs {
			if ru.Match(mkReq(q)) {
				matched = true
			}
		}
	case *rules.HostRule:
		for _, q := range c.Reqs {
			if q.Host && ru.Match(q.Hostname) {
				matched = true
			}
		}
	case *rules.CosmeticRule:
		for _, q := range c.Reqs {
			if q.Host && ru.Match(q.Hostname) {
				matched = true
			}
		}
	}
	// engines over a list holding just this line
	if !strings.ContainsAny(line, "\n") {
		if _, aerr := c12Answers(line+"\n", c.Reqs, false); aerr != nil {
			return viol(id, "C12:harness", "storage: %v", aerr)
		}
	}
	rec.NonTrivial("line|"+line, map[string]any{"line": fmt.Sprintf("%q", clipStr(line)), "kind": ruleKind(r), "matched_some_request": matched})
	return nil
}

var (
	c12Once    sync.Once
	c12Bundled []string
)

func c12BundledLines() []string {
	c12Once.Do(func() {
		for _, f := range []string{"testdata/easylist.txt", "testdata/adguard_sdn_filter.txt", "testdata/hosts"} {
			fh, err := os.Open(filepath.Join(repoDir(), f))
			if err != nil {
				continue
			}
			sc := bufio.NewScanner(fh)
			sc.Buffer(make([]byte, 1<<20), 1<<20)
			i := 0
			for sc.Scan() {
				i++
				if i%7 == 0 && len(sc.Text()) < 300 { // a deterministic sample keeps memory small
					c12Bundled = append(c12Bundled, sc.Text())
				}
			}
			fh.Close()
		}
	})
	return c12Bundled
}

var c12Special = []string{"$", "|", "||", "^", "*", "#", "##", "#@#", "$$", "@@", "/", "\\", ",", "=", "~", "!", " ", "\t", "[", "(", "{", "?", "+", ".", "domain=", "$domain=", "badfilter", "client=", "'", "\"", "\x00", "\xff", "dnsrewrite=", ";"}

// URLs whose lower-cased form has another byte length (Kelvin sign, Ohm sign,
// capital sharp s, dotted capital I) and other non-ASCII text.
var c12OddURLs = []string{"http://example.org/\u212aelvin/ads", "http://example.org/\u2126\u2126\u2126\u2126\u2126\u2126\u2126", "https://a.com/\u1e9e?x=\u212b",
	"http://example.org/\u0130\u0130\u0130\u0130\u0130\u0130", "http://пример.рф/РЕКЛАМА", "http://example.org/\xff\xfe\x80", "http://example.org/" + strings.Repeat("\u212a", 30)}

func c12Reqs(t *rapid.T) []Q {
	var out []Q
	for i := rapid.IntRange(2, 5).Draw(t, "nreq"); i > 0; i-- {
		q := genQ(t, nil)
		if !q.Host && chance(t, "odd-url", 4) {
			q.URL = pick(t, "odd", c12OddURLs)
		}
		if !q.Host && chance(t, "odd-source", 5) {
			// referrers whose host part is unusual: trailing dots, empty labels, a bare dot
			q.Src = pick(t, "odd-src", []string{"https://www.example.org./page", "http://example.org../", "http://./", "http://a./", "http://.a.com/", "http://a..com/", "https://example.org.:8443/x", "http://", "://", "http://[::1]/", "http://%41.com/"})
		}
		out = append(out, q)
	}
	return out
}

func genC12Line(t *rapid.T) c12Case {
	var line string
	switch rapid.IntRange(0, 5).Draw(t, "source") {
	case 0, 1:
		m := genNetModel(t, modelOpts{})
		line = renderNet(t, m)
	case 2:
		if b := c12BundledLines(); len(b) > 0 {
			line = b[rapid.IntRange(0, len(b)-1).Draw(t, "bundled")]
		}
	case 3:
		line = pick(t, "pool", c11LinePool)
	case 4:
		// short hostile constants
		line = pick(t, "hostile", []string{"a", "^", "a$domain=x.com", "|$client=1.1.1.1", "ab$ctag=x", "||$denyallow=a.com", "*$dnstype=A", "a|$domain=x.com", "|a$domain=x.com",
			"/[/", "/(/", "/a{2,1}/", "/\\/", "//", "///", "/a/$domain=x.com", "@@a$domain=x.com", "$domain=x.com", "$$", "#", "##", "#@#", "a##", "##a", "a#@#b",
			"0.0.0.0", "0.0.0.0 ", "::", ":: a", "1.2.3.4 a#b", "a#", "a #", "a.com#", "@@||a^$dnsrewrite", "||a^$dnsrewrite=;;", "||a^$client=", "||a^$client='", "||a^$ctag=~",
			"#@ merged from example.org", "#@todo", "#?ref=list", "#%20generated", "#$ price", "#@$", "#@?x", "#@%x", "#$?x", "#@", "#?", "#$", "#%",
			// rewrites with an empty value, for every record type that has a parser
			"||4.3.2.1.in-addr.arpa^$dnsrewrite=NOERROR;PTR;", "||a^$dnsrewrite=NOERROR;A;", "||a^$dnsrewrite=NOERROR;AAAA;", "||a^$dnsrewrite=NOERROR;MX;", "||a^$dnsrewrite=NOERROR;SRV;",
			"||a^$dnsrewrite=NOERROR;TXT;", "||a^$dnsrewrite=NOERROR;HTTPS;", "||a^$dnsrewrite=NOERROR;SVCB;", "||a^$dnsrewrite=NOERROR;CNAME;", "||a^$dnsrewrite=NOERROR;PTR;.", "||a^$dnsrewrite=."})
	case 5:
		line = string(rapid.SliceOfN(rapid.Byte(), 0, 40).Draw(t, "bytes"))
	}
	// random damage
	b := []byte(line)
	for i := rapid.IntRange(0, 3).Draw(t, "nmut"); i > 0; i-- {
		pos := 0
		if len(b) > 0 {
			pos = rapid.IntRange(0, len(b)).Draw(t, "pos")
		}
		switch rapid.IntRange(0, 3).Draw(t, "mut") {
		case 0:
			ins := pick(t, "ins", c12Special)
			b = append(b[:pos:pos], append([]byte(ins), b[pos:]...)...)
		case 1:
			if pos < len(b) {
				b = append(b[:pos:pos], b[pos+1:]...)
			}
		case 2:
			if pos < len(b) {
				b[pos] ^= byte(1 << rapid.IntRange(0, 7).Draw(t, "bit"))
			}
		case 3:
			if pos < len(b) {
				b = b[:pos] // truncate
			}
		}
	}
	for i, ch := range b {
		if ch == '\n' {
			b[i] = ' '
		}
	}
	return c12Case{Line: b, Reqs: c12Reqs(t)}
}

var c12NoisePool = []string{"! Liste fran\xe7aise", "# caf\xe9 \xff", "!\xff\xfe", "||bad\xe9^$unknownmod", "! \xc3", // not valid UTF-8
	"#@ merged from example.org", "#@todo ads", "#?ref=example", "#%20generated banner", "#$ price ads", "#@$x", "#@? google", "#@%", "#$?", "#@",
	"! moved, see \r||example.org^$important", "# old:\r0.0.0.0 example.org", "! x\r@@||example.org^$important\r", "!\r##.banner", // a lone carriage return does not end a line
	"", " ", "\t", "! comment", "!", "# comment", "#", "# ||example.org^", "! ||example.org^$important", "||bad^$unknownmod", "@@", "||x^$domain=",
	"|", "*", "||", "example.org#$#body{}", "#@#.nodomain", "||a^$dnsrewrite=;;", "||a^$client=", "$$script", "!##.x", "# 0.0.0.0 example.org", "||example.org^$popup,elemhide",
	"||example.org^$domain=example.com|~example.net,unknownmodifier=1,third-party,script", "@@||example.org^$elemhide,popup,domain=example.com|example.net|example.org|a.com"}

func genC12Inert(t *rapid.T) c12Case {
	var c c12Case
	n := rapid.IntRange(3, 25).Draw(t, "nrules")
	var models []NetModel
	for i := 0; i < n; i++ {
		switch rapid.IntRange(0, 5).Draw(t, "kind") {
		case 0:
			c.Rules = append(c.Rules, pick(t, "hosts", []string{"0.0.0.0 example.org", "::1 example.org a.com", "a.com", "127.0.0.1 google.com"}))
		case 1:
			c.Rules = append(c.Rules, pick(t, "cosmetic", []string{"##.banner", "example.org##.ad", "example.org#@#.ad", "~a.com##.x", "google.*##.g"}))
		default:
			m := genNetModel(t, modelOpts{})
			if wideMask(m.Pat) && !m.hasRestriction() {
				m.DPerm = []string{"example.org"}
			}
			models = append(models, m)
			c.Rules = append(c.Rules, renderNet(t, m))
		}
	}
	if len(models) > 0 && chance(t, "family", 2) {
		// a family of near-identical rules and badfilter twins: the same rule
		// with one modifier group dropped or added, some with $badfilter
		base := models[rapid.IntRange(0, len(models)-1).Draw(t, "family-of")]
		for i := rapid.IntRange(1, 4).Draw(t, "nfamily"); i > 0; i-- {
			v := base
			switch rapid.IntRange(0, 5).Draw(t, "variant") {
			case 0:
				v.CPerm, v.CRestr = nil, nil
			case 1:
				v.CPerm = append(append([]Cli{}, base.CPerm...), Cli{"ip", "1.2.3.4"})
			case 2:
				v.GPerm, v.GRestr = nil, nil
			case 3:
				v.Deny = nil
			case 4:
				v.QPerm, v.QRestr = nil, nil
			case 5:
				v.DPerm, v.DRestr = nil, nil
			}
			if wideMask(v.Pat) && !v.hasRestriction() {
				continue
			}
			if chance(t, "family-badfilter", 2) {
				v.Extra = append(append([]string{}, v.Extra...), "badfilter")
			}
			models = append(models, v)
			c.Rules = append(c.Rules, renderNet(t, v))
		}
		n = len(c.Rules)
	}
	if len(c.Rules) > 1 && chance(t, "bom-first-line", 8) {
		// the mark is content of the first line like any other byte; nothing else about the list changes
		c.Rules[0] = "\xef\xbb\xbf" + c.Rules[0]
	}
	nearBuffer := chance(t, "rule-near-buffer-size", 6)
	if nearBuffer {
		// a rule line whose length is the size of the list reader's block, give or take a byte or two:
		// whether it still fits depends on the line ending
		L := pick(t, "near-buffer-len", []int{4093, 4094, 4095, 4096, 4097})
		s := "ab$domain=example.org"
		for i := 0; len(s)+60 < L; i++ {
			s += fmt.Sprintf("|site%04d.example", i)
		}
		for L-len(s) > 40 {
			s += "|pad.example"
		}
		if k := L - len(s) - 1 - len(".example"); k >= 1 {
			s += "|" + strings.Repeat("p", k) + ".example"
		}
		c.Rules = append(c.Rules, s)
		n = len(c.Rules)
	}
	shortLast := chance(t, "short-rule-last", 3)
	if shortLast {
		// the shortest rules there are, as the last line
		c.Rules = append(c.Rules, pick(t, "short", []string{"ad^", "nl", "a.b", "ab$ctag=x", "@@a$ctag=x"}))
		n = len(c.Rules)
	}
	k := rapid.IntRange(0, 10).Draw(t, "nnoise")
	for i := 0; i < k; i++ {
		if chance(t, "long-noise", 6) {
			// a comment longer than the 4 KiB read buffer whose tail looks like a rule
			fill := strings.Repeat("x", rapid.IntRange(4070, 4110).Draw(t, "fill"))
			c.Noise = append(c.Noise, pick(t, "long-prefix", []string{"! ", "# ", "!", "#"})+fill+pick(t, "long-tail", []string{"||example.org^$important", "\t@@||example.org^$important", " 0.0.0.0 example.org", "##.banner"}))
			c.Pos = append(c.Pos, rapid.IntRange(0, n).Draw(t, "noise-pos"))
			continue
		}
		c.Noise = append(c.Noise, pick(t, "noise", c12NoisePool))
		c.Pos = append(c.Pos, rapid.IntRange(0, n).Draw(t, "noise-pos"))
	}
	c.CRLF = chance(t, "crlf", 3)
	c.File = chance(t, "file-backed", 3)
	c.NoEOL = chance(t, "no-final-newline", 3)
	if nearBuffer {
		c.File = c.File || chance(t, "near-buffer-file", 2)
		c.CRLF = c.CRLF || chance(t, "near-buffer-crlf", 2)
		c.Reqs = append(c.Reqs, Q{URL: "http://x.com/ab", Src: "http://example.org/", Typ: "script"}, Q{URL: "http://x.com/ab", Src: "http://site0003.example/", Typ: "image"})
	}
	for i := rapid.IntRange(3, 8).Draw(t, "nreq"); i > 0; i-- {
		if len(models) > 0 {
			c.Reqs = append(c.Reqs, genQNear(t, models[rapid.IntRange(0, len(models)-1).Draw(t, "for")]))
		} else {
			c.Reqs = append(c.Reqs, genQ(t, nil))
		}
	}
	if shortLast {
		c.Reqs = append(c.Reqs, Q{URL: "http://example.org/ad/ab?a", Typ: "script", Tags: []string{"x"}}, Q{Host: true, Hostname: "nl"}, Q{Host: true, Hostname: "a.b"})
		if chance(t, "noise-after-last", 2) {
			c.Noise = append(c.Noise, pick(t, "tail-noise", []string{"! end", "", "# end"}))
			c.Pos = append(c.Pos, n)
		}
	}
	if chance(t, "odd-url-req", 3) {
		c.Reqs = append(c.Reqs, Q{URL: pick(t, "odd", c12OddURLs), Src: "http://example.org/", Typ: "script"})
	}
	return c
}

func init() { register("C12", checkC12) }

func TestC12(t *testing.T) {
	runProp(t, "C12", checkC12, nil,
		part[c12Case]{"lines", scale(20000, 80000), genC12Line},
		part[c12Case]{"inert-noise", scale(1500, 5000), genC12Inert})
}

// FuzzC12: coverage-guided search for a crashing or mis-reported line.
func FuzzC12(f *testing.F) {
	for _, s := range []string{"||example.org^$third-party", "@@||example.org^$document", "0.0.0.0 example.org # c", "example.org##.banner", "/ad[0-9]+/$domain=a.com",
		"a$domain=x.com", "^", "|", "$$", "##", "||a^$dnsrewrite=NOERROR;MX;1 m.x", "||a^$client='x\\'y'|~1.2.3.0/24", "*$denyallow=a.com,dnstype=~A", "a.com|$ctag=x"} {
		f.Add([]byte(s), "http://example.org/a?b", "http://a.com/", "example.org")
	}
	f.Fuzz(func(t *testing.T, line []byte, u, src, host string) {
		if len(line) > 2000 || len(u) > 2000 || len(src) > 2000 || len(host) > 300 {
			return
		}
		for i, ch := range line {
			if ch == '\n' {
				line[i] = ' '
			}
		}
		reqs := []Q{{URL: u, Src: src, Typ: "script"}, {URL: u, Typ: "document"}}
		if host != "" {
			reqs = append(reqs, Q{Host: true, Hostname: host, DNSType: "A"})
		}
		fuzzCheck(t, "C12", checkC12, c12Case{Line: line, Reqs: reqs})
	})
}
