package props

import (
	"bytes"
	"fmt"
	"os"
	"runtime"
	"strings"
	"sync"
	"testing"

	"github.com/AdguardTeam/urlfilter"
	"github.com/AdguardTeam/urlfilter/filterlist"
	"github.com/AdguardTeam/urlfilter/rules"
	"pgregory.net/rapid"
)

// C11 — every scanned rule can be retrieved by its index from any backing store.

type c11List struct {
	ID             int    `json:"id"`
	Content        []byte `json:"content"` // base64 in JSON: arbitrary bytes
	IgnoreCosmetic bool   `json:"ignore_cosmetic,omitempty"`
}

type c11Case struct {
	Lists []c11List `json:"lists"`
	Reqs  []Q       `json:"reqs,omitempty"`
}

type c11Item struct {
	kind, text string
	listID     int
	idx        int64
}

func ruleKind(r rules.Rule) string {
	switch r.(type) {
	case *rules.NetworkRule:
		return "network"
	case *rules.HostRule:
		return "host"
	case *rules.CosmeticRule:
		return "cosmetic"
	}
	return fmt.Sprintf("%T", r)
}

// c11Reference parses the content line by line.
func c11Reference(lists []c11List) []c11Item {
	var out []c11Item
	for _, l := range lists {
		off := 0
		for _, ln := range bytes.SplitAfter(l.Content, []byte("\n")) {
			if len(ln) == 0 {
				continue
			}
			start := off
			off += len(ln)
			r, err := rules.NewRule(string(ln), l.ID)
			if err != nil || r == nil {
				continue
			}
			if _, ok := r.(*rules.CosmeticRule); ok && l.IgnoreCosmetic {
				continue
			}
			idx := int64(int32(l.ID))<<32 | int64(uint32(start))
			out = append(out, c11Item{ruleKind(r), r.Text(), l.ID, idx})
		}
	}
	return out
}

func c11Storage(lists []c11List, file bool) (*filterlist.RuleStorage, func(), error) {
	var rl []filterlist.RuleList
	var files []string
	cleanup := func() {
		for _, l := range rl {
			_ = l.Close()
		}
		for _, f := range files {
			_ = os.Remove(f)
		}
	}
	for _, l := range lists {
		if !file {
			rl = append(rl, &filterlist.StringRuleList{ID: l.ID, RulesText: string(l.Content), IgnoreCosmetic: l.IgnoreCosmetic})
			continue
		}
		f, err := os.CreateTemp("", "verif-c11-*.txt")
		if err != nil {
			cleanup()
			return nil, func() {}, err
		}
		_, _ = f.Write(l.Content)
		_ = f.Close()
		files = append(files, f.Name())
		fl, err := filterlist.NewFileRuleList(l.ID, f.Name(), l.IgnoreCosmetic)
		if err != nil {
			cleanup()
			return nil, func() {}, err
		}
		rl = append(rl, fl)
	}
	st, err := filterlist.NewRuleStorage(rl)
	if err != nil {
		cleanup()
		return nil, func() {}, err
	}
	return st, cleanup, nil
}

func c11Preview(c c11Case) any {
	var out []map[string]any
	for _, l := range c.Lists {
		p := string(l.Content)
		if len(p) > 300 {
			p = p[:300] + fmt.Sprintf("…(%d bytes)", len(l.Content))
		}
		out = append(out, map[string]any{"id": l.ID, "ignore_cosmetic": l.IgnoreCosmetic, "content_preview": fmt.Sprintf("%q", p)})
	}
	return out
}

func checkC11(c c11Case, rec *Rec) *Violation {
	const id = "C11"
	trackCase(id, "C11:process-killed", c)
	want := c11Reference(c.Lists)
	feats := 0
	var all []byte
	for _, l := range c.Lists {
		all = append(all, l.Content...)
	}
	if bytes.Contains(all, []byte("\r\n")) {
		feats++
	}
	for _, ln := range bytes.Split(all, []byte("\n")) {
		if len(ln) >= 4095 {
			feats++
			break
		}
	}
	for _, b := range all {
		if b >= 0x80 {
			feats++
			break
		}
	}
	if bytes.Contains(all, []byte("$unknownmod")) || bytes.Contains(all, []byte("\x00")) {
		feats++
	}
	if len(want) > 0 && feats >= 2 {
		rec.NonTrivial(fmt.Sprintf("%x", hash64(string(all)))+fmt.Sprint(len(c.Lists)), c11Preview(c))
	}
	var seqs [2][]c11Item
	var answers [2]string
	for bi, file := range []bool{false, true} {
		name := []string{"String", "File"}[bi]
		st, cleanup, err := c11Storage(c.Lists, file)
		if err != nil {
			return viol(id, "C11:harness", "%s storage: %v", name, err)
		}
		sc := st.NewRuleStorageScanner()
		var got []c11Item
		for sc.Scan() {
			r, idx := sc.Rule()
			if r == nil {
				cleanup()
				return viol(id, "C11:nil-rule-scanned", "%s-backed scan yielded a nil rule", name)
			}
			got = append(got, c11Item{ruleKind(r), r.Text(), r.GetFilterListID(), idx})
		}
		seqs[bi] = got
		if len(got) != len(want) {
			cleanup()
			return viol(id, "C11:scan-sequence-differs:"+name, "%s-backed scan yielded %d rules, reference parse %d (lists %v)", name, len(got), len(want), c11Preview(c))
		}
		seen := map[int64]int{}
		for i := range got {
			if got[i] != want[i] {
				cleanup()
				return viol(id, "C11:scan-sequence-differs:"+name, "%s-backed scan item %d = %+v, reference %+v", name, i, clipItem(got[i]), clipItem(want[i]))
			}
			if j, dup := seen[got[i].idx]; dup {
				cleanup()
				return viol(id, "C11:index-not-injective", "%s-backed: items %d and %d share storage index %d", name, j, i, got[i].idx)
			}
			seen[got[i].idx] = i
		}
		if v := c11ScanBetweenRetrievals(c, got, name, file); v != nil {
			cleanup()
			return v
		}
		if v := c11ConcurrentRetrieval(c, got, name, file); v != nil {
			cleanup()
			return v
		}
		// retrieval only after the scan has finished (scanner and retrieval share the file offset)
		for pass := 0; pass < 2; pass++ {
			for i, it := range got {
				r, rerr := st.RetrieveRule(it.idx)
				if rerr != nil || r == nil {
					cleanup()
					return viol(id, "C11:retrieve-fails:"+name, "%s-backed RetrieveRule(%d) (item %d %+v, pass %d): rule=%v err=%v", name, it.idx, i, clipItem(it), pass, r, rerr)
				}
				if ruleKind(r) != it.kind || r.Text() != it.text || r.GetFilterListID() != it.listID {
					cleanup()
					return viol(id, "C11:retrieve-differs:"+name, "%s-backed RetrieveRule(%d) pass %d = (%s, %q, list %d), scanned %+v", name, it.idx, pass, ruleKind(r), clipStr(r.Text()), r.GetFilterListID(), clipItem(it))
				}
				switch it.kind {
				case "network":
					if st.RetrieveNetworkRule(it.idx) == nil || st.RetrieveHostRule(it.idx) != nil {
						cleanup()
						return viol(id, "C11:typed-retrieve", "%s-backed typed retrieval of network rule %d inconsistent", name, it.idx)
					}
				case "host":
					if st.RetrieveHostRule(it.idx) == nil || st.RetrieveNetworkRule(it.idx) != nil {
						cleanup()
						return viol(id, "C11:typed-retrieve", "%s-backed typed retrieval of host rule %d inconsistent", name, it.idx)
					}
				}
			}
		}
		// engines over this backing, built on a storage nothing has been retrieved from yet (as an application does)
		est, ecleanup, eerr := c11Storage(c.Lists, file)
		if eerr != nil {
			cleanup()
			return viol(id, "C11:harness", "%s storage: %v", name, eerr)
		}
		ne := urlfilter.NewNetworkEngine(est)
		de := urlfilter.NewDNSEngine(est)
		ce := urlfilter.NewCosmeticEngine(est)
		var sb strings.Builder
		for _, q := range c.Reqs {
			if q.Host {
				res, m := de.MatchRequest(mkDNSReq(q))
				fmt.Fprintf(&sb, "D %v %q", m, sortedKeys(setOf(netTexts(res.NetworkRules))))
				for _, h := range res.HostRulesV4 {
					fmt.Fprintf(&sb, " 4:%q", h.Text())
				}
				for _, h := range res.HostRulesV6 {
					fmt.Fprintf(&sb, " 6:%q", h.Text())
				}
				cr := ce.Match(q.Hostname, true, true, true)
				fmt.Fprintf(&sb, " C %q %q\n", sortedKeys(setOf(cr.ElementHiding.Generic)), sortedKeys(setOf(cr.ElementHiding.Specific)))
			} else {
				fmt.Fprintf(&sb, "N %q\n", sortedKeys(setOf(netTexts(ne.MatchAll(mkReq(q))))))
			}
		}
		// the combined engine (network and cosmetic index over one storage), on a storage of its own
		est2, ecleanup2, eerr2 := c11Storage(c.Lists, file)
		if eerr2 != nil {
			ecleanup()
			cleanup()
			return viol(id, "C11:harness", "%s storage: %v", name, eerr2)
		}
		eng := urlfilter.NewEngine(est2)
		for _, q := range c.Reqs {
			if q.Host {
				cr := eng.GetCosmeticResult(q.Hostname, rules.CosmeticOptionAll)
				fmt.Fprintf(&sb, "E C %q %q\n", sortedKeys(setOf(cr.ElementHiding.Generic)), sortedKeys(setOf(cr.ElementHiding.Specific)))
			} else if b := eng.MatchRequest(mkReq(q)).GetBasicResult(); b != nil {
				fmt.Fprintf(&sb, "E N %q\n", b.Text())
			} else {
				sb.WriteString("E N -\n")
			}
		}
		ecleanup2()
		answers[bi] = sb.String()
		ecleanup()
		cleanup()
	}
	if answers[0] != answers[1] {
		return viol(id, "C11:string-vs-file-engines", "engine answers differ between String and File backing:\n%s\nvs\n%s", clipStr(answers[0]), clipStr(answers[1]))
	}
	rec.LabelN("rules-scanned-and-retrieved", len(want))
	return nil
}

// c11ScanBetweenRetrievals: on a cold storage, a rule is retrieved, the lists
// are scanned again (as a second engine over the same storage does), and then
// another rule is retrieved for the first time — preferably the one that starts
// exactly one read buffer (4096 bytes) after the first.
func c11ScanBetweenRetrievals(c c11Case, items []c11Item, name string, file bool) *Violation {
	const id = "C11"
	if len(items) < 2 {
		return nil
	}
	st, cleanup, err := c11Storage(c.Lists, file)
	if err != nil {
		return viol(id, "C11:harness", "%s storage: %v", name, err)
	}
	defer cleanup()
	byIdx := map[int64]int{}
	for i, it := range items {
		byIdx[it.idx] = i
	}
	retrieve := func(i int, what string) *Violation {
		it := items[i]
		r, rerr := st.RetrieveRule(it.idx)
		if rerr != nil || r == nil {
			return viol(id, "C11:retrieve-fails:"+name+":scan-between", "%s-backed RetrieveRule(%d) (%s, scanned %+v): rule=%v err=%v", name, it.idx, what, clipItem(it), r, rerr)
		}
		if ruleKind(r) != it.kind || r.Text() != it.text || r.GetFilterListID() != it.listID {
			return viol(id, "C11:retrieve-differs:"+name+":scan-between", "%s-backed RetrieveRule(%d) (%s) = (%s, %q, list %d), scanned %+v", name, it.idx, what, ruleKind(r), clipStr(r.Text()), r.GetFilterListID(), clipItem(it))
		}
		return nil
	}
	done := 0
	for a := 0; a < len(items) && done < 12; a++ {
		b, ok := byIdx[items[a].idx+4096]
		if !ok {
			if a%7 != 3 || a+1 >= len(items) {
				continue
			}
			b = a + 1
		}
		done++
		if v := retrieve(a, "first retrieval"); v != nil {
			return v
		}
		sc := st.NewRuleStorageScanner()
		for sc.Scan() {
		}
		if v := retrieve(b, "first retrieval of this rule, after another retrieval and a full scan"); v != nil {
			return v
		}
	}
	return nil
}

// c11ConcurrentRetrieval retrieves every scanned index from a second, cold
// storage over the same content with several goroutines at once: each index
// must still yield the rule that was scanned with it.
func c11ConcurrentRetrieval(c c11Case, items []c11Item, name string, file bool) *Violation {
	const id = "C11"
	if len(items) < 2 {
		return nil
	}
	if len(items) > 96 {
		items = items[:96]
	}
	st, cleanup, err := c11Storage(c.Lists, file)
	if err != nil {
		return viol(id, "C11:harness", "%s storage: %v", name, err)
	}
	defer cleanup()
	c14HookMu.Lock()
	defer c14HookMu.Unlock()
	setYieldHooks(func(string) { runtime.Gosched() })
	defer setYieldHooks(nil)
	const G = 4
	errs := make([]string, G)
	var wg sync.WaitGroup
	start := make(chan struct{})
	for g := 0; g < G; g++ {
		wg.Add(1)
		go func(g int) {
			defer wg.Done()
			defer func() {
				if e := recover(); e != nil {
					errs[g] = fmt.Sprintf("panic: %v", e)
				}
			}()
			<-start
			for k := range items {
				// every goroutine walks the indexes from another starting point and direction
				i := (k + g*len(items)/G) % len(items)
				if g%2 == 1 {
					i = len(items) - 1 - i
				}
				it := items[i]
				r, rerr := st.RetrieveRule(it.idx)
				if rerr != nil || r == nil {
					errs[g] = fmt.Sprintf("RetrieveRule(%d) for scanned %+v: rule=%v err=%v", it.idx, clipItem(it), r, rerr)
					return
				}
				if ruleKind(r) != it.kind || r.Text() != it.text || r.GetFilterListID() != it.listID {
					errs[g] = fmt.Sprintf("RetrieveRule(%d) = (%s, %q, list %d), scanned %+v", it.idx, ruleKind(r), clipStr(r.Text()), r.GetFilterListID(), clipItem(it))
					return
				}
			}
		}(g)
	}
	close(start)
	wg.Wait()
	for g, e := range errs {
		if e != "" {
			return viol(id, "C11:concurrent-retrieve-differs:"+name, "%s-backed, %d goroutines retrieving from a cold storage, goroutine %d: %s", name, G, g, e)
		}
	}
	return nil
}

func clipStr(s string) string {
	if len(s) > 160 {
		return fmt.Sprintf("%s…(%d bytes)", s[:160], len(s))
	}
	return s
}

func clipItem(it c11Item) c11Item {
	it.text = clipStr(it.text)
	return it
}

var c11LinePool = []string{
	"||example.org^", "@@||example.org^$important", "||google.com^$third-party", "/banner_ad", "example.org/ads/*$script,domain=a.com|~b.a.com",
	"0.0.0.0 example.org", "::1 localhost.localdomain a.com", "a.com", "127.0.0.1\texample.org\tgoogle.com # comment",
	"##.banner", "example.org##.ad", "example.org#@#.ad", "~a.com##.x", "example.org#$#body { color: red }",
	"! comment", "# hosts comment", "#", "", " ", "\t", "||bad^$unknownmod", "@@", "||x^$domain=", "|", "*",
	"||пример.рф^", "# комментарий ✓", "0.0.0.0 пример.рф", "a\x00b.com", "||nul\x00.example^", "\xff\xfe||bom.example^",
	"||example.org^$domain=example.com|~example.net,unknownmodifier=1,third-party,script", // a long rejected line
	"@@||example.org^$elemhide,popup,domain=example.com|example.net|example.org|a.com",    // rejected: popup on an exception
	"\u00a0||nbsp.example^\u00a0", "\f||formfeed.example^", "\u2003a.com\u2003", "0.0.0.0 example.org\u0085", "\v##.vt", // Unicode blanks at the edges
	"\xa0||latin1.example^", "\x85||nel.example^", "\xbf0.0.0.0 example.org", // first byte is a UTF-8 continuation byte
	"||example.org^$dnsrewrite=1.2.3.4", "||example.org^$client='Frank\\'s laptop'", "/regex[0-9]+/", "  ||trimmed.example^  ",
	"[Adblock Plus 2.0]", "[Adblock]", // list headers are lines like any other
	"cn", "io", "a", "ab", "a.b", // the shortest lines there are
	"@@||example.org^$elemhide", "@@||example.org^$document", "@@||a.com^$generichide,important", "@@||google.com^$jsinject,elemhide", // exceptions that switch cosmetic options off are network rules
	"  ##.banner", "\t example.org##.ad", " #@#.x", "   example.org#$#body{}", " ! indented comment", "  # indented hosts comment", // indented cosmetic rules and comments
}

func c11LongLine(t *rapid.T) string {
	n := pick(t, "longlen", []int{4094, 4095, 4096, 4097, 8191, 8192, 8193, 9000})
	if rare(t, "beyond-64KiB", 60) {
		n = pick(t, "hugelen", []int{65535, 65536, 66000})
	}
	switch rapid.IntRange(0, 2).Draw(t, "longkind") {
	case 0:
		return "||example.org/" + strings.Repeat("a", n-15) + "^"
	case 1:
		return "! " + strings.Repeat("c", n-2)
	}
	return "0.0.0.0 example.org #" + strings.Repeat("x", n-21)
}

func genC11(t *rapid.T) c11Case {
	nl := rapid.IntRange(1, 4).Draw(t, "nlists")
	ids := genListIDs(t, nl)
	var c c11Case
	for i := 0; i < nl; i++ {
		var buf bytes.Buffer
		if chance(t, "utf8-bom", 6) {
			buf.WriteString("\xef\xbb\xbf") // the mark is content like any other byte
			buf.WriteString(pick(t, "bom-first-line", []string{"||bom8.example^", "example.org", "0.0.0.0 a.com", "! comment", "##.x"}))
			buf.WriteString("\n")
		}
		if rare(t, "aligned-lines", 6) {
			// lines of exactly 32 bytes: rules start at every multiple of the 4 KiB read buffer
			n := rapid.IntRange(130, 400).Draw(t, "aligned-n")
			for j := 0; j < n; j++ {
				ln := fmt.Sprintf("||h%04d.example^$ctag=t%04d", j, j)
				buf.WriteString(ln + strings.Repeat(" ", 31-len(ln)) + "\n")
			}
			c.Lists = append(c.Lists, c11List{ID: ids[i], Content: buf.Bytes()})
			continue
		}
		k := rapid.IntRange(0, 25).Draw(t, "nlines")
		eol := pick(t, "eol", []string{"\n", "\r\n", "mixed"})
		if chance(t, "header-first-line", 8) {
			buf.WriteString(pick(t, "header", []string{"[Adblock Plus 2.0]", "[Adblock Plus 3.1]", "[AdBlock]"}))
			if eol == "\r\n" {
				buf.WriteString("\r")
			}
			buf.WriteString("\n")
		}
		for j := 0; j < k; j++ {
			var ln string
			if chance(t, "long-line", 12) {
				ln = c11LongLine(t)
			} else {
				ln = pick(t, "line", c11LinePool)
			}
			buf.WriteString(ln)
			if j == k-1 && chance(t, "no-final-newline", 3) {
				break
			}
			e := eol
			if e == "mixed" {
				e = pick(t, "mixed-eol", []string{"\n", "\r\n", "\n\n", "\r\r\n", "\r", "\r \n"}) // a lone CR does not end a line
			}
			buf.WriteString(e)
		}
		if chance(t, "two-byte-last-line", 8) {
			// an unterminated last line of two bytes
			if b := buf.Bytes(); len(b) > 0 && b[len(b)-1] != '\n' {
				buf.WriteString("\n")
			}
			buf.WriteString(pick(t, "two-bytes", []string{"cn", "io", "ru", "ab"}))
		}
		c.Lists = append(c.Lists, c11List{ID: ids[i], Content: buf.Bytes(), IgnoreCosmetic: chance(t, "ignore-cosmetic", 3)})
	}
	for _, l := range c.Lists {
		if bytes.HasPrefix(l.Content, []byte("||h0000.example^$ctag=t0000")) {
			// the family of 32-byte lines: rules from the first block, around the block boundary and further on
			for _, n := range []int{0, 100, 127, 128, 129, rapid.IntRange(0, 129).Draw(t, "aligned-q")} {
				c.Reqs = append(c.Reqs, Q{URL: fmt.Sprintf("http://h%04d.example/", n), Typ: "script", Tags: []string{fmt.Sprintf("t%04d", n)}},
					Q{Host: true, Hostname: fmt.Sprintf("h%04d.example", n), Tags: []string{fmt.Sprintf("t%04d", n)}})
			}
			break
		}
	}
	for i := rapid.IntRange(0, 4).Draw(t, "nreq"); i > 0; i-- {
		if chance(t, "host-req", 2) {
			c.Reqs = append(c.Reqs, Q{Host: true, Hostname: pick(t, "h", []string{"example.org", "a.com", "google.com", "localhost.localdomain", "trimmed.example", "пример.рф"})})
		} else {
			c.Reqs = append(c.Reqs, Q{URL: pick(t, "u", []string{"http://example.org/ads/x.js", "https://google.com/banner_ad", "http://trimmed.example/", "http://x.com/regex12"}),
				Src: pick(t, "s", []string{"", "http://a.com/", "http://b.a.com/"}), Typ: "script"})
		}
	}
	return c
}

func init() { register("C11", checkC11) }

func TestC11(t *testing.T) {
	runProp(t, "C11", checkC11, nil, part[c11Case]{"contents", scale(1500, 6000), genC11})
}

// FuzzC11 runs the same oracle on raw content bytes (thorough tier).
func FuzzC11(f *testing.F) {
	f.Add([]byte("||example.org^\n0.0.0.0 a.com\r\n##.x\n! c\n"), 1, false)
	f.Add([]byte("a.com"), -1, true)
	f.Add([]byte("\r\n\r\n||x.example^$important\r"), 2147483647, false)
	f.Fuzz(func(t *testing.T, content []byte, id int, ignoreCosmetic bool) {
		if len(content) > 20000 {
			return
		}
		fuzzCheck(t, "C11", checkC11, c11Case{Lists: []c11List{{ID: int(int32(id)), Content: content, IgnoreCosmetic: ignoreCosmetic}},
			Reqs: []Q{{Host: true, Hostname: "a.com"}, {URL: "http://example.org/", Typ: "script"}}})
	})
}
