package props

import (
	"fmt"
	"sort"
	"strings"
	"testing"

	"github.com/AdguardTeam/urlfilter"
	"github.com/AdguardTeam/urlfilter/filterlist"
	"github.com/AdguardTeam/urlfilter/rules"
	"pgregory.net/rapid"
)

// C16 — exception modifiers only ever switch cosmetic options off.

var c16Mods = []string{"elemhide", "generichide", "jsinject", "document", "urlblock", "genericblock", "content", "extension", "important"}

// c16Case is one basic-rule situation.
type c16Case struct {
	Kind string   `json:"kind"` // exception | block | none | engine
	Mods []string `json:"mods"` // subset of c16Mods, in the written order
	// SourceMods: (engine kind) document-level exception for the referrer
	Pattern string `json:"pattern"`
}

func c16Disabled(mods []string) rules.CosmeticOption {
	var off rules.CosmeticOption
	for _, m := range mods {
		switch m {
		case "elemhide", "document":
			off |= rules.CosmeticOptionCSS | rules.CosmeticOptionGenericCSS
		}
		switch m {
		case "generichide":
			off |= rules.CosmeticOptionGenericCSS
		case "jsinject", "document":
			off |= rules.CosmeticOptionJS
		}
	}
	return off
}

func c16RuleText(c c16Case) string {
	pat := c.Pattern
	if pat == "" {
		pat = "||example.org^"
	}
	txt := pat
	if c.Kind != "block" {
		txt = "@@" + txt
	}
	if len(c.Mods) > 0 {
		txt += "$" + strings.Join(c.Mods, ",")
	}
	return txt
}

func checkC16(c c16Case, rec *Rec) *Violation {
	const id = "C16"
	var basic *rules.NetworkRule
	if c.Kind != "none" {
		mods := c.Mods
		if c.Kind == "block" {
			// only modifiers valid on blocking rules
			mods = nil
			for _, m := range c.Mods {
				if m == "important" {
					mods = append(mods, m)
				}
			}
			c.Mods = mods
		}
		r, err := rules.NewNetworkRule(c16RuleText(c), 1)
		if err != nil {
			return viol(id, "C16:parse", "rule %q rejected: %v", c16RuleText(c), err)
		}
		basic = r
	}
	want := rules.CosmeticOptionAll
	if c.Kind == "exception" || c.Kind == "engine" {
		want = rules.CosmeticOptionAll &^ c16Disabled(c.Mods)
	}
	if c.Kind == "referrer-engine" {
		// only document-level exceptions can be referrer rules here; others would match the request too
		doc := false
		for _, m := range c.Mods {
			if m != "important" {
				doc = true
			}
		}
		if !doc {
			return nil
		}
	}
	sorted := append([]string{}, c.Mods...)
	sort.Strings(sorted)
	key := c.Kind + "|" + strings.Join(sorted, ",")

	var got rules.CosmeticOption
	switch c.Kind {
	case "referrer-struct":
		// no basic rule at all; the exception only matches the referrer
		mr := rules.MatchingResult{DocumentRule: basic}
		if g := mr.GetCosmeticOption(); g != rules.CosmeticOptionAll {
			return viol(id, "C16:option-without-basic-rule", "no basic rule, referrer rule %q: GetCosmeticOption=%03b, want everything enabled", c16RuleText(c), g)
		}
		// the option is derived from the verdict, whatever else was evaluated on the result before
		_ = mr.GetBasicResult()
		if g := mr.GetCosmeticOption(); g != rules.CosmeticOptionAll {
			return viol(id, "C16:option-depends-on-call-order", "no basic rule, referrer rule %q: GetCosmeticOption=%03b after GetBasicResult was evaluated, %03b before", c16RuleText(c), g, rules.CosmeticOptionAll)
		}
		return nil
	case "referrer-engine":
		text := c16RuleText(c) + "\n##.generic\n"
		st, err := filterlist.NewRuleStorage([]filterlist.RuleList{&filterlist.StringRuleList{ID: 1, RulesText: text}})
		if err != nil {
			return viol(id, "C16:harness", "storage: %v", err)
		}
		res := urlfilter.NewEngine(st).MatchRequest(rules.NewRequest("http://frame.other.example/", "http://example.org/", rules.TypeSubdocument))
		if res.BasicRule != nil {
			return viol(id, "C16:harness", "unexpected basic rule %q", res.BasicRule.Text())
		}
		if g := res.GetCosmeticOption(); g != rules.CosmeticOptionAll {
			return viol(id, "C16:option-without-basic-rule", "request matched by no rule, referrer matched by %q: GetCosmeticOption=%03b, want everything enabled", c16RuleText(c), g)
		}
		_ = res.GetBasicResult()
		if g := res.GetCosmeticOption(); g != rules.CosmeticOptionAll {
			return viol(id, "C16:option-depends-on-call-order", "request matched by no rule, referrer matched by %q: GetCosmeticOption=%03b after GetBasicResult was evaluated, %03b before", c16RuleText(c), g, rules.CosmeticOptionAll)
		}
		return nil
	case "proxy":
		// end to end: the page is fetched through the proxy server; the option travels in the injected tag.
		// What the client announces in its Accept header must not matter: the verdict that counts is the
		// one for the document type known from the response.
		rg := getProxyRig()
		if rg.err != nil {
			rec.Label("proxy-stage-unavailable")
			return nil
		}
		mask := 0
		for _, m := range c.Mods {
			for i, x := range c16Mods {
				if x == m {
					mask |= 1 << i
				}
			}
		}
		w := rules.CosmeticOptionAll &^ c16Disabled(c.Mods)
		for _, accept := range proxyAccepts {
			body, _, ferr := rg.fetch(c16PageName(mask), accept)
			if ferr != nil {
				return viol(id, "C16:harness", "fetch through the proxy: %v", ferr)
			}
			_, opt, _, found := splitInjected(body)
			if found && accept == proxyAccepts[0] {
				// the script the tag points to is computed with the option the tag carries
				script, serr := rg.fetchScript(body)
				if serr != nil {
					return viol(id, "C16:harness", "fetch of the content script: %v", serr)
				}
				o := rules.CosmeticOption(opt)
				wantGen := o&rules.CosmeticOptionCSS != 0 && o&rules.CosmeticOptionGenericCSS != 0
				wantSpec := o&rules.CosmeticOptionCSS != 0
				if g, s := strings.Contains(string(script), ".e2e-generic"), strings.Contains(string(script), ".e2e-specific"); g != wantGen || s != wantSpec {
					return viol(id, "C16:option-mismatch:content-script", "page excepted by %q: the tag carries option %03b but the script it points to has generic selector=%v (want %v), specific selector=%v (want %v)",
						"@@"+c16PageName(mask)+"$"+strings.Join(c.Mods, ","), opt, g, wantGen, s, wantSpec)
				}
			}
			switch {
			case w == rules.CosmeticOptionNone && found:
				return viol(id, "C16:option-reenabled", "page excepted by %q fetched through the proxy (Accept %q): a content script with option %03b is injected although every option is off", "@@"+c16PageName(mask)+"$"+strings.Join(c.Mods, ","), accept, opt)
			case w != rules.CosmeticOptionNone && !found:
				return viol(id, "C16:option-mismatch", "page excepted by %q fetched through the proxy (Accept %q): no content script injected, reference option %03b", "@@"+c16PageName(mask)+"$"+strings.Join(c.Mods, ","), accept, w)
			case found && rules.CosmeticOption(opt) != w:
				sig := "C16:option-mismatch"
				if rules.CosmeticOption(opt)&^w != 0 {
					sig = "C16:option-reenabled"
				}
				return viol(id, sig+":through-proxy", "page excepted by %q fetched through the proxy (Accept %q): injected option %03b, reference %03b", "@@"+c16PageName(mask)+"$"+strings.Join(c.Mods, ","), accept, opt, w)
			}
		}
		rec.Label("proxy-end-to-end")
		return nil
	case "engine-referrer-urlblock", "engine-with-stealth":
		// engine-referrer-urlblock: the page is requested from a referrer under a $urlblock exception and an $important
		// blocking rule matches the page too; the referrer-level exception takes the block away, the page's own
		// exception decides the option.  engine-with-stealth: a $stealth exception (special-purpose, also with
		// $important) stands next to the page's exception; it never decides the option.
		text := c16RuleText(c) + "\n@@||ref.example^$urlblock\n||example.org^$important\n"
		referrer := "http://ref.example/"
		if c.Kind == "engine-with-stealth" {
			text = "@@||example.org^$stealth,important\n" + c16RuleText(c) + "\n@@||example.org^$stealth\n"
			referrer = ""
		}
		st, err := filterlist.NewRuleStorage([]filterlist.RuleList{&filterlist.StringRuleList{ID: 1, RulesText: text}})
		if err != nil {
			return viol(id, "C16:harness", "storage: %v", err)
		}
		w := rules.CosmeticOptionAll &^ c16Disabled(c.Mods)
		res := urlfilter.NewEngine(st).MatchRequest(rules.NewRequest("http://example.org/", referrer, rules.TypeDocument))
		if g := res.GetCosmeticOption(); g != w {
			sig := "C16:option-mismatch"
			if g&^w != 0 {
				sig = "C16:option-reenabled"
			}
			return viol(id, sig+":"+c.Kind, "list %q, page requested from %q: GetCosmeticOption=%03b, reference %03b", text, referrer, g, w)
		}
		return nil
	case "engine-with-badfiltered-exception", "engine-with-specific-block":
		// engine-with-badfiltered-exception: another cosmetic exception for the page is switched off by its $badfilter
		// twin, listed before or after the page's exception; only the latter counts.  engine-with-specific-block: the page
		// is requested from a referrer for which a $domain-restricted (non-important) blocking rule exists; an exception
		// outranks it, so the exception still decides the option.
		w := rules.CosmeticOptionAll &^ c16Disabled(c.Mods)
		texts := []string{"@@|http://example.org/|$elemhide\n@@|http://example.org/|$elemhide,badfilter\n" + c16RuleText(c) + "\n",
			c16RuleText(c) + "\n@@|http://example.org/|$jsinject,badfilter\n@@|http://example.org/|$jsinject\n",
			"@@|http://example.org/|$generichide,badfilter\n@@|http://example.org/|$generichide\n" + c16RuleText(c) + "\n"}
		referrer := ""
		if c.Kind == "engine-with-specific-block" {
			texts = []string{"||example.org^$domain=ref.example\n" + c16RuleText(c) + "\n", c16RuleText(c) + "\n|http://example.org/$domain=ref.example|other.example\n"}
			referrer = "http://ref.example/page"
		}
		for _, text := range texts {
			st, err := filterlist.NewRuleStorage([]filterlist.RuleList{&filterlist.StringRuleList{ID: 1, RulesText: text}})
			if err != nil {
				return viol(id, "C16:harness", "storage: %v", err)
			}
			res := urlfilter.NewEngine(st).MatchRequest(rules.NewRequest("http://example.org/", referrer, rules.TypeDocument))
			if g := res.GetCosmeticOption(); g != w {
				sig := "C16:option-mismatch"
				if g&^w != 0 {
					sig = "C16:option-reenabled"
				}
				return viol(id, sig+":"+c.Kind, "list %q, page requested from %q: GetCosmeticOption=%03b, reference %03b", text, referrer, g, w)
			}
		}
		return nil
	case "engine-with-important-block":
		// an $important blocking rule matches the page as well, listed before or after the exception:
		// an $important exception still decides the verdict, any other exception does not
		w := rules.CosmeticOptionAll
		if inList("important", c.Mods) {
			w = rules.CosmeticOptionAll &^ c16Disabled(c.Mods)
		}
		for _, text := range []string{"||example.org^$important\n" + c16RuleText(c) + "\n", c16RuleText(c) + "\n||example.org^$important\n"} {
			st, err := filterlist.NewRuleStorage([]filterlist.RuleList{&filterlist.StringRuleList{ID: 1, RulesText: text}})
			if err != nil {
				return viol(id, "C16:harness", "storage: %v", err)
			}
			res := urlfilter.NewEngine(st).MatchRequest(rules.NewRequest("http://example.org/", "", rules.TypeDocument))
			if g := res.GetCosmeticOption(); g != w {
				return viol(id, "C16:option-mismatch", "list %q: GetCosmeticOption=%03b, reference %03b", text, g, w)
			}
			both := []*rules.NetworkRule{basic}
			blk, _ := rules.NewNetworkRule("||example.org^$important", 1)
			if strings.HasPrefix(text, "||") {
				both = []*rules.NetworkRule{blk, basic}
			} else {
				both = append(both, blk)
			}
			if g := rules.NewMatchingResult(both, nil).GetCosmeticOption(); g != w {
				return viol(id, "C16:option-mismatch", "NewMatchingResult(%q): GetCosmeticOption=%03b, reference %03b", netTexts(both), g, w)
			}
		}
		return nil
	case "with-replace-rules":
		// other rule kinds in the verdict do not change what the exception disables
		other, _ := rules.NewNetworkRule("||example.org^$important", 1)
		mr := rules.MatchingResult{BasicRule: basic, ReplaceRules: []*rules.NetworkRule{other}, CspRules: []*rules.NetworkRule{other}, StealthRule: other}
		w := rules.CosmeticOptionAll &^ c16Disabled(c.Mods)
		if g := mr.GetCosmeticOption(); g != w {
			return viol(id, "C16:option-mismatch", "exception %q with replace/csp/stealth rules present: GetCosmeticOption=%03b, reference %03b", c16RuleText(c), g, w)
		}
		return nil
	}
	if c.Kind == "engine" {
		// through the engine: the document request itself is excepted
		text := c16RuleText(c) + "\n##.generic\nexample.org##.specific\nexample.*##.wild\n~shop.example.net,~a.com##.genericneg\n##.dup\nexample.org##.dup\nexample.org##.promo\nsub.example.org#@#.promo\n"
		st, err := filterlist.NewRuleStorage([]filterlist.RuleList{&filterlist.StringRuleList{ID: 1, RulesText: text}})
		if err != nil {
			return viol(id, "C16:harness", "storage: %v", err)
		}
		e := urlfilter.NewEngine(st)
		res := e.MatchRequest(rules.NewRequest("http://example.org/", "", rules.TypeDocument))
		got = res.GetCosmeticOption()
		// the same page requested from a same-site referrer: the exception matches the referrer as well
		if g2 := e.MatchRequest(rules.NewRequest("http://example.org/", "http://example.org/from", rules.TypeDocument)).GetCosmeticOption(); g2 != got {
			return viol(id, "C16:option-depends-on-referrer", "rule %q: GetCosmeticOption=%03b without a referrer but %03b with a same-site referrer", c16RuleText(c), got, g2)
		}
		// the same engine is first asked with everything enabled: the answer for the derived option must not depend on that
		if all := e.GetCosmeticResult("example.org", rules.CosmeticOptionAll); !inList(".generic", all.ElementHiding.Generic) || !inList(".specific", all.ElementHiding.Specific) {
			return viol(id, "C16:engine-selectors", "with every option enabled the selectors are generic=%q specific=%q", all.ElementHiding.Generic, all.ElementHiding.Specific)
		}
		_ = e.GetCosmeticResult("example.org", rules.CosmeticOptionCSS)
		cr := e.GetCosmeticResult("example.org", got)
		hasG := inList(".generic", cr.ElementHiding.Generic)
		hasS := inList(".specific", cr.ElementHiding.Specific)
		if hasW := inList(".wild", cr.ElementHiding.Specific); hasW != hasS {
			return viol(id, "C16:engine-selectors", "rule %q: option %03b: wildcard-TLD selector present=%v but plain specific selector present=%v", c16RuleText(c), got, hasW, hasS)
		}
		wantG := want&rules.CosmeticOptionCSS != 0 && want&rules.CosmeticOptionGenericCSS != 0
		wantS := want&rules.CosmeticOptionCSS != 0
		for _, h := range []string{"example.org.", "sub..example.org", ".example.org", "other.example"} {
			if g := inList(".generic", e.GetCosmeticResult(h, got).ElementHiding.Generic); g != wantG {
				return viol(id, "C16:engine-selectors", "rule %q: option %03b: generic selector for host %q present=%v, want %v", c16RuleText(c), got, h, g, wantG)
			}
		}
		// a selector carried by a generic and by a specific rule: the specific one stays when only generic CSS is off
		if r := e.GetCosmeticResult("example.org", got).ElementHiding; (inList(".dup", r.Generic) || inList(".dup", r.Specific)) != wantS {
			return viol(id, "C16:engine-selectors", "rule %q: option %03b: selector carried by a generic and a specific rule present=%v, want %v (generic=%q specific=%q)",
				c16RuleText(c), got, !wantS, wantS, r.Generic, r.Specific)
		}
		// a specific rule that an exception rule unhides on a sub-domain: never there, whatever the option; on the domain itself with CSS
		if r := e.GetCosmeticResult("sub.example.org", got).ElementHiding; inList(".promo", r.Generic) || inList(".promo", r.Specific) {
			return viol(id, "C16:engine-selectors", "rule %q: option %03b: selector unhidden on sub.example.org by an exception rule is applied there (generic=%q specific=%q)", c16RuleText(c), got, r.Generic, r.Specific)
		}
		if r := e.GetCosmeticResult("example.org", got).ElementHiding; inList(".promo", r.Specific) != wantS {
			return viol(id, "C16:engine-selectors", "rule %q: option %03b: specific selector .promo on example.org present=%v, want %v", c16RuleText(c), got, !wantS, wantS)
		}
		// a rule that only excludes domains is generic as well
		for _, h := range []string{"example.org", "sub.example.org", "other.example"} {
			r := e.GetCosmeticResult(h, got).ElementHiding
			if g := inList(".genericneg", r.Generic) || inList(".genericneg", r.Specific); g != wantG {
				return viol(id, "C16:engine-selectors", "rule %q: option %03b: selector of the generic rule with excluded domains for host %q present=%v, want %v", c16RuleText(c), got, h, g, wantG)
			}
		}
		if r := e.GetCosmeticResult("shop.example.net", rules.CosmeticOptionAll).ElementHiding; inList(".genericneg", r.Generic) || inList(".genericneg", r.Specific) {
			return viol(id, "C16:engine-selectors", "the generic rule is applied on the domain it excludes")
		}
		if got == want && (hasG != wantG || hasS != wantS) {
			return viol(id, "C16:engine-selectors", "rule %q: option %03b but generic selector present=%v (want %v), specific present=%v (want %v)",
				c16RuleText(c), got, hasG, wantG, hasS, wantS)
		}
		if len(res.CookieRules)+len(res.CspRules)+len(res.ReplaceRules) != 0 {
			return viol(id, "C16:harness", "unexpected special rules")
		}
	} else {
		mr := rules.MatchingResult{BasicRule: basic}
		got = mr.GetCosmeticOption()
		_ = mr.GetBasicResult()
		if g := mr.GetCosmeticOption(); g != got {
			return viol(id, "C16:option-depends-on-call-order", "%s rule %q: GetCosmeticOption=%03b, but %03b after GetBasicResult was evaluated", c.Kind, c16RuleText(c), got, g)
		}
	}
	if len(c.Mods) >= 2 && want != rules.CosmeticOptionAll {
		rec.NonTrivial(key, c)
	}
	if got != want {
		sig := "C16:option-mismatch"
		if got&^want != 0 {
			sig = "C16:option-reenabled"
		}
		return viol(id, sig, "%s rule %q: GetCosmeticOption=%03b, reference=%03b (bits: JS,CSS,GenericCSS)", c.Kind, c16RuleText(c), got, want)
	}
	// monotone: adding any further modifier never enables a bit
	if c.Kind == "exception" {
		for _, extra := range c16Mods {
			if inList(extra, c.Mods) {
				continue
			}
			c2 := c
			c2.Mods = append(append([]string{}, c.Mods...), extra)
			r2, err := rules.NewNetworkRule(c16RuleText(c2), 1)
			if err != nil {
				return viol(id, "C16:parse", "rule %q rejected: %v", c16RuleText(c2), err)
			}
			mr2 := rules.MatchingResult{BasicRule: r2}
			if g2 := mr2.GetCosmeticOption(); g2&^got != 0 {
				return viol(id, "C16:option-reenabled", "adding $%s to %q turns bits %03b on (before %03b, after %03b)", extra, c16RuleText(c), g2&^got, got, g2)
			}
		}
	}
	return nil
}

func c16Subset(mask int) []string {
	var mods []string
	for i, m := range c16Mods {
		if mask&(1<<i) != 0 {
			mods = append(mods, m)
		}
	}
	return mods
}

func init() { register("C16", checkC16) }

func TestC16(t *testing.T) {
	exhaustive := func(rec *Rec) *replayFile {
		if shard() != 0 {
			return nil
		}
		for _, kind := range []string{"exception", "engine", "block", "referrer-struct", "referrer-engine", "with-replace-rules", "engine-with-important-block", "engine-referrer-urlblock", "engine-with-stealth", "engine-with-badfiltered-exception", "engine-with-specific-block", "proxy"} {
			for mask := 0; mask < 1<<len(c16Mods); mask++ {
				c := c16Case{Kind: kind, Mods: c16Subset(mask)}
				rec.Eval()
				if v := rec.filter(safeCheck("C16", checkC16, c, rec)); v != nil {
					return exhaustiveFail("C16", c, v)
				}
			}
		}
		c := c16Case{Kind: "none"}
		rec.Eval()
		if v := rec.filter(safeCheck("C16", checkC16, c, rec)); v != nil {
			return exhaustiveFail("C16", c, v)
		}
		rec.Label(fmt.Sprintf("exhaustive_subsets_%d_x_3_kinds", 1<<len(c16Mods)))
		return nil
	}
	// sampled: written order of the modifiers and other patterns
	gen := func(t *rapid.T) c16Case {
		mods := c16Subset(rapid.IntRange(0, 1<<len(c16Mods)-1).Draw(t, "mask"))
		if chance(t, "value-modifier-in-between", 3) {
			// a modifier with a value (quotes, escapes, separators inside it) written among the others:
			// it restricts where the rule applies, not what the rule switches off
			extra := pick(t, "value-modifier", []string{"client='Frank\\'s laptop'", "client=\"a\\\"b\"", "client='x\\,y'", "ctag=device_pc", "dnstype=A", "domain=example.org|~sub.example.org", "client='it\\'s \\'q\\''"})
			ms := shuffled(t, "order", mods)
			pos := rapid.IntRange(0, len(ms)).Draw(t, "value-modifier-pos")
			ms = append(ms[:pos:pos], append([]string{extra}, ms[pos:]...)...)
			return c16Case{Kind: "exception", Mods: ms, Pattern: pick(t, "pattern", []string{"||example.org^", "example.org"})}
		}
		return c16Case{
			Kind:    pick(t, "kind", []string{"exception", "engine"}),
			Mods:    shuffled(t, "order", mods),
			Pattern: pick(t, "pattern", []string{"||example.org^", "|http://example.org/", "example.org", "||example.org^*"}),
		}
	}
	runProp(t, "C16", checkC16, exhaustive, part[c16Case]{"order", scale(400, 4000), gen})
}
