package props

import (
	"fmt"
	"github.com/AdguardTeam/urlfilter/filterutil"
	"strings"
	"testing"

	"github.com/AdguardTeam/urlfilter"
	"github.com/AdguardTeam/urlfilter/rules"
	"pgregory.net/rapid"
)

// C08 — $badfilter disables exactly its twin rules, however many are present.

type c08Line struct {
	Text  string   `json:"text"`
	Model NetModel `json:"model"`
	List  int      `json:"list"`
	Pos   int      `json:"pos"`   // sort key inside the list
	Extra bool     `json:"extra"` // belongs to the added set (rule or badfilter twin), not to the base list
}

type c08Case struct {
	Lines []c08Line `json:"lines"`
	Reqs  []Q       `json:"reqs"`
}

func c08Lists(c c08Case, withExtras bool) []ListSpec {
	nl := 1
	for _, l := range c.Lines {
		if l.List+1 > nl {
			nl = l.List + 1
		}
	}
	type item struct {
		pos  int
		text string
	}
	per := make([][]item, nl)
	for _, l := range c.Lines {
		if l.Extra && !withExtras {
			continue
		}
		per[l.List] = append(per[l.List], item{l.Pos, l.Text})
	}
	out := make([]ListSpec, nl)
	for i := range out {
		out[i].ID = i + 1
		// stable insertion by position
		items := per[i]
		for a := 1; a < len(items); a++ {
			for b := a; b > 0 && items[b].pos < items[b-1].pos; b-- {
				items[b], items[b-1] = items[b-1], items[b]
			}
		}
		for _, it := range items {
			out[i].Text += it.text + "\n"
		}
	}
	return out
}

type c08Snapshot struct {
	class    string
	rewrites []string
	v4, v6   []string
	matched  bool
}

func (s c08Snapshot) String() string {
	return fmt.Sprintf("class=%s rewrites=%q v4=%q v6=%q matched=%v", s.class, s.rewrites, s.v4, s.v6, s.matched)
}

func c08Class(r *rules.NetworkRule) string {
	if r == nil {
		return "none"
	}
	return ruleClass(r)
}

func c08Badfilter(rs ...*rules.NetworkRule) *rules.NetworkRule {
	for _, r := range rs {
		if r != nil && r.IsOptionEnabled(rules.OptionBadfilter) {
			return r
		}
	}
	return nil
}

func checkC08(c c08Case, rec *Rec) *Violation {
	const id = "C08"
	nExtraRules, special := 0, false
	for _, l := range c.Lines {
		if l.Extra && !inList("badfilter", l.Model.Extra) {
			nExtraRules++
		}
		if l.Extra && (len(l.Model.Deny) > 0 || len(l.Model.QPerm)+len(l.Model.QRestr) > 0 || l.Model.Rewrite != nil) {
			special = true
		}
	}
	nTwins := 0
	for _, l := range c.Lines {
		if l.Extra && inList("badfilter", l.Model.Extra) {
			nTwins++
		}
	}
	sigSuffix := ""
	if nTwins >= 2 {
		sigSuffix = ":several-badfilters"
	}
	type engines struct {
		e  *urlfilter.Engine
		ne *urlfilter.NetworkEngine
		d  *urlfilter.DNSEngine
	}
	build := func(withExtras bool) (engines, func(), error) {
		st, cleanup, err := buildStorage(c08Lists(c, withExtras))
		if err != nil {
			return engines{}, func() {}, err
		}
		return engines{urlfilter.NewEngine(st), urlfilter.NewNetworkEngine(st), urlfilter.NewDNSEngine(st)}, cleanup, nil
	}
	base, cl1, err := build(false)
	if err != nil {
		return viol(id, "C08:harness", "storage: %v", err)
	}
	defer cl1()
	ext, cl2, err := build(true)
	if err != nil {
		return viol(id, "C08:harness", "storage: %v", err)
	}
	defer cl2()

	for _, q := range c.Reqs {
		if nTwins >= 2 || special {
			rec.NonTrivial(fmt.Sprint(c.Lines)+q.key(), map[string]any{"lists_with_added_rules": c08Lists(c, true), "request": q})
		}
		if q.Host {
			snap := func(en engines) (c08Snapshot, *Violation) {
				res, matched := en.d.MatchRequest(mkDNSReq(q))
				s := c08Snapshot{class: c08Class(res.NetworkRule), matched: matched}
				rw := res.DNSRewrites()
				if b := c08Badfilter(append([]*rules.NetworkRule{res.NetworkRule}, rw...)...); b != nil {
					return s, viol(id, "C08:badfilter-rule-in-result", "request %+v: the badfilter rule %q is returned as a result", q, b.Text())
				}
				s.rewrites = sortedKeys(setOf(netTexts(rw)))
				for _, h := range res.HostRulesV4 {
					s.v4 = append(s.v4, h.Text())
				}
				for _, h := range res.HostRulesV6 {
					s.v6 = append(s.v6, h.Text())
				}
				s.v4, s.v6 = sortedKeys(setOf(s.v4)), sortedKeys(setOf(s.v6))
				return s, nil
			}
			a, v := snap(base)
			if v != nil {
				return v
			}
			b, v := snap(ext)
			if v != nil {
				return v
			}
			if a.String() != b.String() {
				sig := "C08:dns-verdict-changed"
				if fmt.Sprint(a.rewrites) != fmt.Sprint(b.rewrites) {
					sig = "C08:dns-rewrites-changed"
				}
				return viol(id, sig+sigSuffix, "DNS request %+v: base lists give {%s}, with the added rules and their badfilter twins {%s}; lists: %+v", q, a, b, c08Lists(c, true))
			}
			rec.Label("dns-class:" + a.class)
			continue
		}
		webSnap := func(en engines) (string, *Violation) {
			mr := en.e.MatchRequest(mkReq(q))
			basic := mr.GetBasicResult()
			r2, _ := en.ne.Match(mkReq(q))
			if b := c08Badfilter(basic, mr.BasicRule, mr.DocumentRule, mr.StealthRule, r2); b != nil {
				return "", viol(id, "C08:badfilter-rule-in-result", "request %+v: the badfilter rule %q is returned as a result", q, b.Text())
			}
			return c08Class(basic) + "/" + c08Class(r2), nil
		}
		a, v := webSnap(base)
		if v != nil {
			return v
		}
		b, v := webSnap(ext)
		if v != nil {
			return v
		}
		if a != b {
			return viol(id, "C08:web-verdict-changed"+sigSuffix, "request %+v: verdict (Engine.MatchRequest/NetworkEngine.Match) %s for the base lists, %s with the added rules and their badfilter twins; lists: %+v", q, a, b, c08Lists(c, true))
		}
		rec.Label("web-class:" + a)
	}
	rec.LabelN("queries", len(c.Reqs))
	return nil
}

var c08Patterns = []string{"||example.org^", "example", "|http://example.org/", "||example.org/ads/*", "example.org/", "||google.com^", "/ads/x", "||a.com^", "ab", "-ad-", "/x", "||example.org/price\\$list", "/cost\\$"} // the last three are too short for the shortcut index

// c08TwinColliders: pairs of $badfilter rule texts (short patterns: sequential table) with equal FastHash.
var c08TwinColliders = findColliders("x^", "^$badfilter", 3)

// c08ForeignCollider: an unrelated sequential-table rule whose text has the same FastHash as the
// $badfilter rule "x^zq7^$badfilter" (while "x^zq7^" itself collides with nothing here).
var c08ForeignCollider = findShortRuleWithHash(filterutil.FastHash("x^zq7^$badfilter"), "$ctag=~nosuchtag")

func c08Mutate(t *rapid.T, m NetModel) NetModel {
	y := m
	switch rapid.IntRange(0, 12).Draw(t, "mutation") {
	case 12:
		// no rewrite against an empty rewrite (and the reverse): another rule
		switch {
		case m.Rewrite == nil && m.Exc:
			e := pick(t, "empty-rewrite", []string{"", "NOERROR", "NOERROR;;"})
			y.Rewrite = &e
		case m.Rewrite == nil:
			e := pick(t, "empty-rewrite-b", []string{"NOERROR", "NOERROR;;"})
			y.Rewrite = &e
		default:
			y.Rewrite = nil
		}
	case 11:
		// $match-case against $~match-case (or nothing against $~match-case): another rule
		y.MC = false
		if !inList("~match-case", m.Extra) {
			y.Extra = append(append([]string{}, m.Extra...), "~match-case")
		} else {
			y.MC = !m.MC
			y.Extra = nil
			for _, e := range m.Extra {
				if e != "~match-case" {
					y.Extra = append(y.Extra, e)
				}
			}
		}
	case 10:
		// one more excluded content type: another rule, even when it matches the same requests ($script vs $script,~image)
		ty := pick(t, "type-", typeNames)
		if !inList(ty, m.TIncl) && !inList(ty, m.TExcl) {
			y.TExcl = append(append([]string{}, m.TExcl...), ty)
		} else {
			if inList("important", m.Extra) {
				y.MC = !m.MC
			} else {
				y.Extra = append(append([]string{}, m.Extra...), "important")
			}
		}
	case 9:
		// the same rule with another letter case in the pattern: another rule, although it matches the same requests
		r := strings.NewReplacer("example", "Example", "google", "Google", "a.com", "A.com", "ads", "Ads")
		if p := r.Replace(m.Pat); p != m.Pat {
			y.Pat = p
		} else {
			if inList("important", m.Extra) {
				y.MC = !m.MC
			} else {
				y.Extra = append(append([]string{}, m.Extra...), "important")
			}
		}
	case 0:
		y.Deny = append(append([]string{}, m.Deny...), pick(t, "deny+", []string{"zzz.com", "yyy.net"}))
	case 1:
		y.QPerm = []string{pick(t, "dnstype*", dnsNames)}
		y.QRestr = nil
		if len(m.QPerm) == 1 && m.QPerm[0] == y.QPerm[0] {
			y.QPerm = append(y.QPerm, "TXT", "PTR")
		}
	case 2:
		v := pick(t, "rewrite*", []string{"1.2.3.4", "4.3.2.1", "NXDOMAIN", "x.example", "REFUSED"})
		if m.Rewrite != nil && *m.Rewrite == v {
			v = "9.9.9.9"
		}
		y.Rewrite = &v
	case 3:
		ty := pick(t, "type+", typeNames)
		if !inList(ty, m.TIncl) && !inList(ty, m.TExcl) {
			y.TIncl = append(append([]string{}, m.TIncl...), ty)
			break
		}
		fallthrough
	case 4:
		if inList("important", m.Extra) {
			y.Extra = nil
			for _, e := range m.Extra {
				if e != "important" {
					y.Extra = append(y.Extra, e)
				}
			}
		} else {
			y.Extra = append(append([]string{}, m.Extra...), "important")
		}
	case 5:
		y.CPerm = append(append([]Cli{}, m.CPerm...), Cli{"ip", "9.9.9.9"})
	case 6:
		y.DPerm = append(append([]string{}, m.DPerm...), "zzz.com")
	case 7:
		y.GRestr = append(append([]string{}, m.GRestr...), "zzz_tag")
	case 8:
		y.Exc = !m.Exc
		y.Extra = nil
		for _, e := range m.Extra {
			if e == "important" {
				y.Extra = append(y.Extra, e)
			}
		}
	}
	return y
}

func genC08(t *rapid.T) c08Case {
	var c c08Case
	nl := rapid.IntRange(1, 3).Draw(t, "nlists")
	keys := map[string]bool{}
	var hashSrc []string // source hosts for the hash-colliding $domain family
	add := func(m NetModel, extra bool) {
		c.Lines = append(c.Lines, c08Line{Text: renderNet(t, m), Model: m, List: rapid.IntRange(0, nl-1).Draw(t, "list"),
			Pos: rapid.IntRange(0, 50).Draw(t, "pos"), Extra: extra})
	}
	genModel := func() NetModel {
		m := genNetModel(t, modelOpts{patterns: c08Patterns, modChance: 4})
		if chance(t, "important", 5) {
			m.Extra = append(m.Extra, "important")
		}
		if chance(t, "rewrite", 6) {
			v := pick(t, "rw", []string{"1.2.3.4", "NXDOMAIN", "x.example", "NOERROR;MX;10 m.x", ""})
			if v != "" || m.Exc {
				m.Rewrite = &v
			}
		}
		if wideMask(m.Pat) && !m.hasRestriction() {
			m.Deny = []string{"b.net"}
		}
		return m
	}
	nb := rapid.IntRange(0, 8).Draw(t, "nbase")
	if chance(t, "empty-base", 3) {
		nb = 0
	}
	for i := 0; i < nb; i++ {
		m := genModel()
		keys[modelKey(m)] = true
		add(m, false)
	}
	k := rapid.IntRange(1, 4).Draw(t, "nextra")
	var xs []NetModel
	for i := 0; i < k; i++ {
		x := genModel()
		if len(xs) > 0 && chance(t, "sibling", 2) {
			// a sibling of an earlier added rule: same pattern, one value differs
			x = c08Mutate(t, xs[rapid.IntRange(0, len(xs)-1).Draw(t, "sibling-of")])
		}
		if keys[modelKey(x)] {
			continue
		}
		keys[modelKey(x)] = true
		xs = append(xs, x)
		tw := x
		tw.Extra = append(append([]string{}, x.Extra...), "badfilter")
		if len(x.DPerm) >= 2 && chance(t, "repeated-value-twin", 3) {
			// third family: the rule stays, and a lone badfilter rule repeats one of its
			// $domain values instead of listing the other ones: same length, another value set
			rep := x
			rep.DPerm = make([]string, len(x.DPerm))
			for j := range rep.DPerm {
				rep.DPerm[j] = x.DPerm[0]
			}
			rep.Extra = append(append([]string{}, x.Extra...), "badfilter")
			if !keys[modelKey(rep)] {
				keys[modelKey(rep)] = true
				add(x, false)
				add(rep, true)
				continue
			}
		}
		if chance(t, "hash-colliding-domain", 10) {
			// fifth family: the base rule and a lone badfilter rule whose $domain lists differ in one entry only,
			// the two entries having the same FastHash
			cp := pick(t, "dcollider", domainColliders)
			y := x
			y.DPerm, y.DRestr, y.TP = []string{cp[0], "example.com"}, nil, 0
			tw2 := y
			tw2.DPerm = []string{"example.com", cp[1]}
			tw2.Extra = append(append([]string{}, y.Extra...), "badfilter")
			if !keys[modelKey(y)] && !keys[modelKey(tw2)] {
				keys[modelKey(y)], keys[modelKey(tw2)] = true, true
				add(y, false)
				add(tw2, true)
				hashSrc = append(hashSrc, cp[0], cp[1])
				continue
			}
		}
		if chance(t, "case-variant-client", 8) {
			// fourth family: the base rule and a lone badfilter rule whose client names differ in letter case only
			y := x
			y.CPerm = []Cli{{"name", "Laptop"}, {"name", "phone"}, {"ip", "1.2.3.4"}}
			y.CRestr = nil
			tw2 := y
			tw2.CPerm = []Cli{{"name", "laptop"}, {"name", "phone"}, {"ip", "1.2.3.4"}}
			tw2.Extra = append(append([]string{}, y.Extra...), "badfilter")
			if !keys[modelKey(y)] && !keys[modelKey(tw2)] {
				keys[modelKey(y)], keys[modelKey(tw2)] = true, true
				add(y, false)
				add(tw2, true)
				continue
			}
		}
		if chance(t, "lone-twin", 4) {
			// second family: the rule itself is absent, a near miss y sits in the base list
			y := c08Mutate(t, x)
			if !keys[modelKey(y)] {
				keys[modelKey(y)] = true
				add(y, false)
			}
			add(tw, true)
			continue
		}
		add(x, true)
		if chance(t, "duplicate-rule", 4) {
			add(x, true) // the same rule twice (two lists, or twice in one): one twin disables both
		}
		add(tw, true)
	}
	if chance(t, "twins-with-colliding-texts", 8) && len(c08TwinColliders) > 0 {
		// two pairs in the sequential table whose $badfilter rules have texts with the same FastHash
		cp := pick(t, "twin-collider", c08TwinColliders)
		li := rapid.IntRange(0, nl-1).Draw(t, "tc-list")
		for k, tw := range cp {
			pat := strings.TrimSuffix(tw, "$badfilter")
			m := NetModel{Pat: pat}
			mt := m
			mt.Extra = []string{"badfilter"}
			c.Lines = append(c.Lines, c08Line{Text: pat, Model: m, List: li, Pos: 10 + k, Extra: true}, c08Line{Text: tw, Model: mt, List: li, Pos: 20 + k, Extra: true})
			c.Reqs = append(c.Reqs, Q{URL: "http://h.com/" + strings.ReplaceAll(pat, "^", "/"), Typ: "script"})
		}
	}
	if chance(t, "twin-colliding-with-a-foreign-rule", 8) && c08ForeignCollider != "" {
		// the base list holds an unrelated rule; the added pair's $badfilter text has the same FastHash as that rule's text
		li := rapid.IntRange(0, nl-1).Draw(t, "fc-list")
		foreign := NetModel{Pat: strings.TrimSuffix(c08ForeignCollider, "$ctag=~nosuchtag"), GRestr: []string{"nosuchtag"}}
		m := NetModel{Pat: "x^zq7^"}
		mt := m
		mt.Extra = []string{"badfilter"}
		c.Lines = append(c.Lines, c08Line{Text: c08ForeignCollider, Model: foreign, List: li, Pos: 1, Extra: false},
			c08Line{Text: "x^zq7^", Model: m, List: li, Pos: 30, Extra: true}, c08Line{Text: "x^zq7^$badfilter", Model: mt, List: li, Pos: 31, Extra: true})
		c.Reqs = append(c.Reqs, Q{URL: "http://h.com/x/zq7/", Typ: "script"}, Q{URL: "http://h.com/" + strings.ReplaceAll(foreign.Pat, "^", "/"), Typ: "script"})
	}
	if chance(t, "pair-around-the-block-size", 8) {
		// a rule that still fits into the list reader's block while its twin (",badfilter" appended) does not
		L := rapid.IntRange(4080, 4100).Draw(t, "pair-len")
		x := "||example.org^$domain=example.com"
		for i := 0; len(x)+60 < L; i++ {
			x += fmt.Sprintf("|site%04d.example", i)
		}
		for L-len(x) > 40 {
			x += "|pad.example"
		}
		if k := L - len(x) - 1 - len(".example"); k >= 1 {
			x += "|" + strings.Repeat("p", k) + ".example"
		}
		m := NetModel{Pat: "||example.org^", DPerm: []string{"example.com", "site0001.example"}}
		tw := m
		tw.Extra = []string{"badfilter"}
		li := rapid.IntRange(0, nl-1).Draw(t, "pair-list")
		c.Lines = append(c.Lines, c08Line{Text: x, Model: m, List: li, Pos: rapid.IntRange(0, 50).Draw(t, "pair-pos"), Extra: true},
			c08Line{Text: x + ",badfilter", Model: tw, List: rapid.IntRange(0, nl-1).Draw(t, "twin-list"), Pos: rapid.IntRange(0, 50).Draw(t, "twin-pos"), Extra: true})
		c.Reqs = append(c.Reqs, Q{URL: "http://example.org/", Src: "http://example.com/", Typ: "script"}, Q{URL: "http://example.org/x", Src: "http://site0001.example/", Typ: "image"})
	}
	if rare(t, "many-matching-rules", 12) {
		// 70 to 130 base rules that match whatever the other rules match on example.org: positions beyond 64 in the matched slice
		for i := rapid.IntRange(70, 130).Draw(t, "nmass"); i > 0; i-- {
			m := NetModel{Pat: pick(t, "mass-pat", []string{"||example.org^", "example", "example.org/"}), GRestr: []string{fmt.Sprintf("mass%03d", i)}}
			if !keys[modelKey(m)] {
				keys[modelKey(m)] = true
				add(m, false)
			}
		}
	}
	var models []NetModel
	for _, l := range c.Lines {
		models = append(models, l.Model)
	}
	if len(models) == 0 {
		m := NetModel{Pat: "||example.org^"}
		add(m, false)
		models = append(models, m)
	}
	nq := rapid.IntRange(3, 8).Draw(t, "nreq")
	for i := 0; i < nq; i++ {
		m := models[rapid.IntRange(0, len(models)-1).Draw(t, "for-rule")]
		q := genQNear(t, m)
		if chance(t, "exact", 2) {
			q = repairQ(t, q, m)
		}
		if !q.Host && chance(t, "longer-in-lower-case", 8) {
			// a letter whose lower-case form takes more bytes, and a rule's text at the very end of the URL
			q.URL = "http://example.org/\u023a" + pick(t, "lil-tail", []string{"/ads/x", "/example", "/example.org/", "\u023a/ads/x", "/q?example.org/ads/"})
		}
		if len(hashSrc) > 0 && !q.Host && chance(t, "hash-src", 2) {
			q.Src = "http://" + pick(t, "hash-src-host", hashSrc) + "/"
		}
		c.Reqs = append(c.Reqs, q)
	}
	for _, m := range models {
		if strings.Contains(m.Pat, "\\$") {
			// patterns with an escaped dollar sign: the address with the plain sign and with the escape as written
			c.Reqs = append(c.Reqs, Q{URL: "https://example.org/price$list", Typ: "script"}, Q{URL: "http://x.com/cost$", Typ: "image"}, Q{URL: "https://example.org/price\\$list", Typ: "script"})
			break
		}
	}
	return c
}

func init() { register("C08", checkC08) }

func TestC08(t *testing.T) {
	_ = strings.Join
	runProp(t, "C08", checkC08, nil, part[c08Case]{"twins", scale(3000, 12000), genC08})
}
