package props

import (
	"encoding/json"
	"fmt"
	"regexp"
	"strings"
	"sync/atomic"
	"testing"

	"github.com/AdguardTeam/urlfilter"
	"github.com/AdguardTeam/urlfilter/rules"
	"pgregory.net/rapid"
)

// C13 — query results are a pure function of the lists and the request.

type c13Step struct {
	Kind string `json:"kind"` // query | repeat | derived | mutate-request
	Q    *Q     `json:"q,omitempty"`
	Ref  int    `json:"ref,omitempty"` // earlier step (repeat, derived), modulo the number of earlier steps
}

type c13Case struct {
	Lists []ListSpec `json:"lists"`
	Steps []c13Step  `json:"steps"`
}

type c13Held struct {
	obj  any
	snap string
	step int
}

func c13SnapObj(o any) string {
	switch r := o.(type) {
	case *urlfilter.DNSResult:
		return snapDNS(r, r.NetworkRule != nil || len(r.HostRulesV4)+len(r.HostRulesV6) > 0)
	case *rules.MatchingResult:
		return snapWeb(r)
	case *urlfilter.CosmeticResult:
		// in the order returned: a result whose slices are overwritten later must show
		return fmt.Sprintf("generic=%q specific=%q", r.ElementHiding.Generic, r.ElementHiding.Specific)
	}
	return "?"
}

func checkC13(c c13Case, rec *Rec) *Violation {
	const id = "C13"
	// the regex rules with generated texts get texts that nothing in this process has used before
	uniq, id1 := c13UniqID(c.Lists), ""
	orig := c
	if uniq != "" {
		id1 = fmt.Sprint(2_000_000_000 + c13FreshID.Add(1))
		c = c13Rename(c, uniq, id1)
	}
	type asked struct {
		q   Q
		got string
	}
	var hist []asked
	hasFault := false
	for _, stp := range c.Steps {
		if stp.Kind == "transient-fault" {
			hasFault = true
		}
	}
	var long *engSet
	var flaky []*flakyList
	var err error
	if hasFault {
		// histories with a read error that goes away again: string-backed lists whose next retrieval can be made to fail
		long, flaky, err = newFlakyEngSet(c.Lists)
	} else {
		long, err = newEngSet(c.Lists)
	}
	if err != nil {
		return viol(id, "C13:harness", "storage: %v", err)
	}
	defer long.cleanup()
	afterFault := false
	freshCache := map[string]string{}
	fresh := func(q Q) (string, *Violation) {
		if s, ok := freshCache[q.key()+fmt.Sprint(q.Host)]; ok {
			return s, nil
		}
		// String-backed copies of the same text: a new storage and new engines for this query only
		lists := make([]ListSpec, len(c.Lists))
		copy(lists, c.Lists)
		for i := range lists {
			lists[i].File = false
		}
		en, ferr := newEngSet(lists)
		if ferr != nil {
			return "", viol(id, "C13:harness", "storage: %v", ferr)
		}
		s, _ := en.answer(q)
		en.cleanup()
		freshCache[q.key()+fmt.Sprint(q.Host)] = s
		return s, nil
	}
	var queries []Q
	var held []c13Held
	nontrivial := false
	var lastClient string
	for si, stp := range c.Steps {
		var q Q
		switch stp.Kind {
		case "query", "mutate-request":
			if stp.Q == nil {
				continue
			}
			q = *stp.Q
		case "repeat":
			if len(queries) == 0 {
				continue
			}
			q = queries[stp.Ref%len(queries)]
			if cl := q.CName + "|" + q.CIP + "|" + fmt.Sprint(q.Tags) + "|" + q.DNSType; cl != lastClient {
				nontrivial = true
			}
		case "transient-fault":
			// the next retrieval from one list fails; the question asked meanwhile may get a poorer answer
			// (that is C19's subject), every later question must be answered as by a fresh engine again
			if len(flaky) == 0 || stp.Q == nil {
				continue
			}
			fl := flaky[stp.Ref%len(flaky)]
			fl.failNext.Store(1)
			_, _ = long.answer(*stp.Q)
			fl.failNext.Store(0)
			afterFault = true
			nontrivial = true
			rec.Label("step:transient-fault")
			goto invariant
		case "derived":
			if len(held) == 0 {
				continue
			}
			h := held[stp.Ref%len(held)]
			nontrivial = true
			// call the derived-result methods on the old object, several times
			switch r := h.obj.(type) {
			case *urlfilter.DNSResult:
				_ = r.DNSRewrites()
				_ = r.DNSRewritesAll()
				_ = rules.GetDNSBasicRule(r.NetworkRules)
				_ = r.DNSRewrites()
			case *rules.MatchingResult:
				_ = r.GetBasicResult()
				_ = r.GetCosmeticOption()
			}
			rec.Label("step:derived")
			goto invariant
		default:
			continue
		}
		{
			var got string
			var objs []any
			if stp.Kind == "mutate-request" && q.Host {
				// the caller owns its request object and may change it after the call
				dr := mkDNSReq(q)
				res, ok := long.d.MatchRequest(dr)
				got0 := snapDNS(res, ok)
				for i := range dr.SortedClientTags {
					dr.SortedClientTags[i] = "zz_mutated"
				}
				dr.Hostname, dr.ClientName, dr.DNSType = "mutated.example", "mutated", 255
				if again := snapDNS(res, ok); again != got0 {
					return viol(id, "C13:result-aliases-request", "step %d: DNS result changed when the caller mutated its request object: %s -> %s", si, got0, again)
				}
				held = append(held, c13Held{res, got0, si})
				got, objs = long.answer(q)
			} else {
				got, objs = long.answer(q)
			}
			want, v := fresh(q)
			if v != nil {
				return v
			}
			rec.Label("step:" + stp.Kind)
			if strings.Contains(got, getterMutatedMarker) {
				return viol(id, "C13:derived-result-call-mutates-result", "step %d request %+v: evaluating the derived results changed the result object: %s", si, q, clipStr(got[strings.Index(got, getterMutatedMarker):]))
			}
			if got != want {
				sig := "C13:history-dependent-answer"
				if afterFault {
					sig += ":after-transient-read-error"
				}
				if q.Host {
					sig += ":dns"
				} else {
					sig += ":web"
				}
				return viol(id, sig, "step %d (%s) request %+v after %d earlier steps:\n got  %s\n fresh %s", si, stp.Kind, q, si, clipStr(got), clipStr(want))
			}
			for _, o := range objs {
				held = append(held, c13Held{o, c13SnapObj(o), si})
			}
			queries = append(queries, q)
			if id1 != "" && !q.Host && strings.Contains(strings.ToLower(q.URL), "niq"+id1) {
				hist = append(hist, asked{q, got})
			}
			lastClient = q.CName + "|" + q.CIP + "|" + fmt.Sprint(q.Tags) + "|" + q.DNSType
		}
	invariant:
		// earlier result objects are unchanged
		for _, h := range held {
			if now := c13SnapObj(h.obj); now != h.snap {
				return viol(id, "C13:old-result-changed", "after step %d (%s) the result returned at step %d changed:\n was %s\n now %s", si, stp.Kind, h.step, clipStr(h.snap), clipStr(now))
			}
		}
	}
	if len(hist) > 1 {
		// the same questions in the opposite order, to fresh engines over the same lists with the generated
		// expressions renamed apart: state that outlives an engine (keyed by rule text) cannot carry over,
		// so every question must get the answer it got in the history above
		id2 := fmt.Sprint(2_000_000_000 + c13FreshID.Add(1))
		c2 := c13Rename(c, id1, id2)
		for i := range c2.Lists {
			c2.Lists[i].File = false
		}
		en2, err2 := newEngSet(c2.Lists)
		if err2 != nil {
			return viol(id, "C13:harness", "storage: %v", err2)
		}
		defer en2.cleanup()
		matchAll := func(s string) string { s, _, _ = strings.Cut(s, " basicrule="); return s }
		for i := len(hist) - 1; i >= 0; i-- {
			q2 := hist[i].q
			q2.URL = strings.ReplaceAll(q2.URL, id1, id2)
			got2, _ := en2.answer(q2)
			got2 = strings.ReplaceAll(got2, id2, id1)
			if matchAll(got2) != matchAll(hist[i].got) {
				return viol(id, "C13:history-dependent-answer:order-of-questions", "request %+v got\n %s\nin the history, but\n %s\nwhen the same questions were asked in the opposite order (fresh engines, generated expressions renamed apart)", hist[i].q, clipStr(matchAll(hist[i].got)), clipStr(matchAll(got2)))
			}
		}
		rec.Label("renamed-apart-reverse-history")
	}
	if nontrivial {
		rec.NonTrivial(fmt.Sprintf("%x", hash64(string(mustJSON(orig)))), map[string]any{"lists": orig.Lists, "steps": len(orig.Steps), "first_steps": firstN(orig.Steps, 6)})
	}
	rec.LabelN("steps", len(c.Steps))
	return nil
}

// c13FreshID numbers the generated regex texts of this process.
var c13FreshID atomic.Int64

var c13UniqRe = regexp.MustCompile(`niq(\d+)[a-z]\[0-9\]`)

// c13UniqID is the generated id inside the /uniq<id>x[0-9]/ rules of the lists, if any.
func c13UniqID(lists []ListSpec) string {
	for _, l := range lists {
		if m := c13UniqRe.FindStringSubmatch(l.Text); m != nil {
			return m[1]
		}
	}
	return ""
}

// c13Rename gives the generated expressions another id, in the lists and in the questions.
func c13Rename(c c13Case, from, to string) c13Case {
	var out c13Case
	raw := regexp.MustCompile("(?i)(niq)"+from).ReplaceAllString(string(mustJSON(c)), "${1}"+to)
	if err := json.Unmarshal([]byte(raw), &out); err != nil {
		panic(err)
	}
	return out
}

func firstN[T any](xs []T, n int) []T {
	if len(xs) > n {
		return xs[:n]
	}
	return xs
}

func genC13(t *rapid.T) c13Case {
	lists, models := genMixedLists(t, 3)
	c := c13Case{Lists: lists}
	n := rapid.IntRange(10, scale(60, 200)).Draw(t, "nsteps")
	uniq := c13UniqID(lists)
	faulty := chance(t, "history-with-transient-faults", 4)
	for len(c.Steps) < n {
		if uniq != "" && chance(t, "fresh-regex-query", 6) {
			u := "http://x.com/" + pick(t, "uniq-case", []string{"uniq", "Uniq", "UNIQ"}) + uniq + pick(t, "uniq-letter", []string{"p", "p", "a", "b", "P"}) + "7"
			q := Q{URL: u, Typ: pick(t, "uniq-type", []string{"image", "script", "script", "image", "other"})}
			c.Steps = append(c.Steps, c13Step{Kind: "query", Q: &q})
			continue
		}
		if faulty && chance(t, "transient-fault", 10) {
			q := genQNear(t, models[rapid.IntRange(0, len(models)-1).Draw(t, "fault-for")])
			if chance(t, "fault-fixed", 2) {
				if q.Host {
					q.Hostname = pick(t, "ffh", []string{"example.org", "a.com", "cn.example"})
				} else {
					q.URL = pick(t, "ffu", c01FixedURLs)
				}
			}
			c.Steps = append(c.Steps, c13Step{Kind: "transient-fault", Q: &q, Ref: rapid.IntRange(0, 7).Draw(t, "fault-list")})
			// the same question again, now that the list can be read
			c.Steps = append(c.Steps, c13Step{Kind: "query", Q: &q})
			continue
		}
		switch rapid.IntRange(0, 11).Draw(t, "stepkind") {
		case 11:
			for _, q := range genBlockQueries(t) {
				q := q
				c.Steps = append(c.Steps, c13Step{Kind: "query", Q: &q})
				if chance(t, "derived-after-block-query", 3) {
					c.Steps = append(c.Steps, c13Step{Kind: "derived", Ref: rapid.IntRange(0, 1000).Draw(t, "bdref")})
				}
			}
		case 10:
			// the same DNS name in several spellings, one right after the other
			h := pick(t, "cvh", []string{"example.org", "a.com", "sub.example.org", "google.com", "shared.example", hostColliders[0][0]})
			sp := []string{h, strings.ToUpper(h), strings.ToUpper(h[:1]) + h[1:], h[:len(h)-1] + strings.ToUpper(h[len(h)-1:])}
			for i := rapid.IntRange(2, 4).Draw(t, "nspell"); i > 0; i-- {
				q := Q{Host: true, Hostname: pick(t, "spelling", sp)}
				if chance(t, "cv-client", 3) {
					q.CName, q.Tags = "Kids", []string{"phone"}
				}
				c.Steps = append(c.Steps, c13Step{Kind: "query", Q: &q})
			}
		case 0, 1:
			c.Steps = append(c.Steps, c13Step{Kind: "repeat", Ref: rapid.IntRange(0, 1000).Draw(t, "ref")})
		case 2:
			c.Steps = append(c.Steps, c13Step{Kind: "derived", Ref: rapid.IntRange(0, 1000).Draw(t, "dref")})
		case 3:
			for _, q := range genFieldToggleQueries(t) {
				q := q
				c.Steps = append(c.Steps, c13Step{Kind: "query", Q: &q})
			}
		case 4:
			q := Q{Host: true, Hostname: pick(t, "mh", []string{"example.org", "a.com"}), Tags: []string{"phone"}, CName: "Kids"}
			c.Steps = append(c.Steps, c13Step{Kind: "mutate-request", Q: &q})
		default:
			q := genQNear(t, models[rapid.IntRange(0, len(models)-1).Draw(t, "for")])
			if chance(t, "fixed", 3) {
				if q.Host {
					q.Hostname = pick(t, "fh", []string{"example.org", hostColliders[0][0], hostColliders[0][1]})
				} else {
					q.URL = pick(t, "fu", c01FixedURLs)
				}
			}
			c.Steps = append(c.Steps, c13Step{Kind: "query", Q: &q})
		}
	}
	return c
}

func init() { register("C13", checkC13) }

func TestC13(t *testing.T) {
	runProp(t, "C13", checkC13, nil, part[c13Case]{"histories", scale(400, 1200), genC13})
}
