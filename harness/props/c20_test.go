package props

import (
	"bytes"
	"compress/gzip"
	"fmt"
	"net/http"
	"strings"
	"sync"
	"testing"
	"unicode/utf8"

	"github.com/AdguardTeam/urlfilter/proxy"
	"pgregory.net/rapid"
)

// C20 — proxy HTML injection inserts one tag and preserves every original byte.

const c20Window = 16 * 1024

type c20Case struct {
	Body   []byte `json:"body"`
	Gzip   bool   `json:"gzip,omitempty"`
	CSP    bool   `json:"csp,omitempty"`
	Length int64  `json:"declared_length,omitempty"`
	// Members: a gzip body is written as this many concatenated gzip members (0 and 1: one member)
	Members int `json:"gzip_members,omitempty"`
	// AfterFailure: the response is filtered right after another one whose body could not be read to its end
	AfterFailure bool `json:"after_failed_response,omitempty"`
	// Pad: that many further bytes ('p') follow Body (bodies of several MiB without storing them in the case)
	Pad int `json:"pad_bytes,omitempty"`
}

var c20Markers = []string{"</head", "<link", "<style", "<script"}

// c20FirstMarker finds the first marker (any letter case) in the body.
func c20FirstMarker(body []byte) int {
	lower := []byte(asciiLower(string(body))) // bytes.ToLower would re-encode invalid UTF-8 and shift offsets
	best := -1
	for _, m := range c20Markers {
		if i := bytes.Index(lower, []byte(m)); i >= 0 && (best == -1 || i < best) {
			best = i
		}
	}
	return best
}

// c20TranscodedOffset: offset of original byte i after Latin-1 -> UTF-8
// transcoding of the prefix (bytes >= 0x80 take two bytes).
func c20TranscodedOffset(body []byte, i int) int {
	n := i
	for _, b := range body[:i] {
		if b >= 0x80 {
			n++
		}
	}
	return n
}

func checkC20(c c20Case, rec *Rec) *Violation {
	const id = "C20"
	if c.Pad > 0 && c.Pad <= 8<<20 {
		c.Body = append(append([]byte{}, c.Body...), bytes.Repeat([]byte{'p'}, c.Pad)...)
	}
	wire := c.Body
	hdr := http.Header{}
	hdr.Set("Content-Type", "text/html")
	if c.Gzip {
		var buf bytes.Buffer
		m := c.Members
		if m < 1 {
			m = 1
		}
		if m > len(c.Body) {
			m = 1
		}
		for k := 0; k < m; k++ {
			// concatenated members are one gzip file (RFC 1952, section 2.2)
			zw := gzip.NewWriter(&buf)
			_, _ = zw.Write(c.Body[k*len(c.Body)/m : (k+1)*len(c.Body)/m])
			_ = zw.Close()
		}
		wire = buf.Bytes()
		hdr.Set("Content-Encoding", "gzip")
	}
	if c.AfterFailure {
		// a response with a gzip body that is cut off in the middle: filtering it fails, nothing else is expected of it
		var buf bytes.Buffer
		zw := gzip.NewWriter(&buf)
		_, _ = zw.Write(bytes.Repeat([]byte("<p>LEFTOVER of a failed response</p><script>"), 200))
		_ = zw.Close()
		cut := buf.Bytes()[:buf.Len()/2]
		h2 := http.Header{}
		h2.Set("Content-Type", "text/html")
		h2.Set("Content-Encoding", "gzip")
		_, _, _, _ = proxy.VerifFilterHTML(cut, h2, int64(len(cut)))
	}
	if c.CSP {
		hdr.Set("Content-Security-Policy", "default-src 'self'")
	}
	if c.Length >= 0 {
		hdr.Set("Content-Length", fmt.Sprint(len(wire)))
	}
	declared := c.Length // -1: the upstream response declares no length (chunked)
	if declared == 0 {
		declared = int64(len(wire))
	}
	out, res, tag, err := proxy.VerifFilterHTML(wire, hdr, declared)
	if err != nil {
		return viol(id, "C20:filter-error", "filterHTML failed on a %d-byte body (gzip=%v): %v", len(c.Body), c.Gzip, err)
	}
	if tag == "" {
		return viol(id, "C20:harness", "empty injection tag")
	}
	i := c20FirstMarker(c.Body)
	high := false
	if i > 0 {
		for _, b := range c.Body[:i] {
			if b >= 0x80 {
				high = true
				break
			}
		}
	}
	nearEdge := i >= 0 && (abs(i-c20Window) <= 8 || abs(c20TranscodedOffset(c.Body, i)-c20Window) <= 8)
	if high || nearEdge || c.Gzip {
		rec.NonTrivial(fmt.Sprintf("%x|%v", hash64(string(c.Body)), c.Gzip), map[string]any{"body_len": len(c.Body), "first_marker_at": i,
			"transcoded_offset": transOff(c.Body, i), "gzip": c.Gzip, "high_byte_before_marker": high, "body_preview": fmt.Sprintf("%q", clipStr(string(c.Body)))})
	}
	injected := append(append(append([]byte{}, c.Body[:max0(i)]...), []byte(tag)...), c.Body[max0(i):]...)
	var want [][]byte
	label := ""
	switch {
	case i < 0:
		want, label = [][]byte{c.Body}, "no-marker"
	case i >= c20Window:
		want, label = [][]byte{c.Body}, "marker-beyond-window"
	case c20TranscodedOffset(c.Body, i) < c20Window:
		want, label = [][]byte{injected}, "marker-in-window"
	default:
		// the original offset is inside the window, the transcoded one is not:
		// the statement does not fix the unit of "inspected prefix"
		want, label = [][]byte{injected, c.Body}, "ambiguous-window-unit"
	}
	rec.Label(label)
	ok := false
	for _, w := range want {
		if bytes.Equal(out, w) {
			ok = true
		}
	}
	if !ok {
		sig := "C20:body-differs:" + label
		if len(out) != len(c.Body) && len(out) != len(c.Body)+len(tag) {
			sig = "C20:bytes-lost-or-added:" + label
		} else if strings.Count(string(out), tag) > 1 {
			sig = "C20:tag-inserted-twice"
		}
		return viol(id, sig, "body of %d bytes (first marker at %d, transcoded offset %d, gzip=%v): output has %d bytes (tag %d bytes), first difference from the expected output at %d; body preview %q",
			len(c.Body), i, transOff(c.Body, i), c.Gzip, len(out), len(tag), firstDiff(out, want[0]), clipStr(string(c.Body)))
	}
	if res.ContentLength != int64(len(out)) {
		return viol(id, "C20:content-length", "ContentLength=%d but the new body has %d bytes", res.ContentLength, len(out))
	}
	if res.Header.Get("Content-Encoding") != "" {
		return viol(id, "C20:content-encoding-kept", "Content-Encoding %q still present after the body was re-encoded", res.Header.Get("Content-Encoding"))
	}
	if hash64(string(c.Body))%8 == 3 && len(c.Body) <= 64*1024 && c.Pad == 0 {
		// several responses filtered at the same time: each gets what the single call got
		const G = 4
		outs := make([][]byte, G)
		var wg sync.WaitGroup
		for g := 0; g < G; g++ {
			wg.Add(1)
			go func(g int) {
				defer wg.Done()
				defer func() { _ = recover() }()
				for round := 0; round < 8; round++ {
					o, _, _, e := proxy.VerifFilterHTML(wire, hdr, declared)
					if e != nil || !bytes.Equal(o, out) {
						outs[g] = append([]byte("!"), o...)
						return
					}
				}
			}(g)
		}
		wg.Wait()
		for g, o := range outs {
			if o != nil {
				return viol(id, "C20:body-differs:filtered-concurrently:"+label, "body of %d bytes filtered by %d goroutines at once: goroutine %d got %d bytes, the single call %d; first difference at %d", len(c.Body), G, g, len(o)-1, len(out), firstDiff(o[1:], out))
			}
		}
		rec.Label("filtered-concurrently")
	}
	// end to end for a share of the cases: the same document served by a web server and fetched through the real proxy
	if len(c.Body) <= 128*1024 && c.Pad == 0 && hash64(string(c.Body))%4 == 0 {
		rg := getProxyRig()
		if rg.err != nil {
			rec.Label("proxy-stage-unavailable")
			return nil
		}
		path := fmt.Sprintf("/c20-%x.html", hash64(string(c.Body)))
		pg := proxyPage{body: c.Body, contentType: "text/html"}
		if c.Gzip {
			pg.gzipBody = wire
		}
		rg.mu.Lock()
		rg.bodies[path] = pg
		rg.mu.Unlock()
		got, hdr2, ferr := rg.fetch(path, proxyAccepts[int(hash64(string(c.Body))/4)%len(proxyAccepts)])
		rg.mu.Lock()
		delete(rg.bodies, path)
		rg.mu.Unlock()
		if ferr != nil {
			return viol(id, "C20:harness", "fetch through the proxy: %v", ferr)
		}
		before, _, after, found := splitInjected(got)
		okE2E := false
		switch label {
		case "no-marker", "marker-beyond-window":
			okE2E = !found && bytes.Equal(got, c.Body)
		case "marker-in-window":
			okE2E = found && len(before) == i && bytes.Equal(append(append([]byte{}, before...), after...), c.Body)
		default:
			okE2E = (!found && bytes.Equal(got, c.Body)) || (found && len(before) == i && bytes.Equal(append(append([]byte{}, before...), after...), c.Body))
		}
		if !okE2E {
			return viol(id, "C20:body-differs:through-proxy:"+label, "body of %d bytes (first marker at %d, gzip=%v) fetched through the proxy: %d bytes come back, tag found=%v at %d; body preview %q",
				len(c.Body), i, c.Gzip, len(got), found, len(before), clipStr(string(c.Body)))
		}
		if cl := hdr2.Get("Content-Length"); cl != "" && cl != fmt.Sprint(len(got)) {
			return viol(id, "C20:content-length:through-proxy", "Content-Length %s but %d bytes come back", cl, len(got))
		}
		if hdr2.Get("Content-Encoding") != "" && found {
			return viol(id, "C20:content-encoding-kept:through-proxy", "Content-Encoding %q on a filtered response", hdr2.Get("Content-Encoding"))
		}
		rec.Label("proxy-end-to-end")
	}
	return nil
}

func transOff(b []byte, i int) int {
	if i < 0 {
		return -1
	}
	return c20TranscodedOffset(b, i)
}

func max0(i int) int {
	if i < 0 {
		return 0
	}
	return i
}

func abs(i int) int {
	if i < 0 {
		return -i
	}
	return i
}

func firstDiff(a, b []byte) int {
	for i := 0; i < len(a) && i < len(b); i++ {
		if a[i] != b[i] {
			return i
		}
	}
	if len(a) != len(b) {
		if len(a) < len(b) {
			return len(a)
		}
		return len(b)
	}
	return -1
}

func c20Filler(t *rapid.T, n int, kind int) []byte {
	out := make([]byte, n)
	switch kind {
	case 0: // ASCII text without '<'
		for i := range out {
			const txt = "abc def\n\t>=\"'/"
			out[i] = txt[i%len(txt)]
		}
	case 1: // high bytes
		for i := range out {
			out[i] = byte(0x80 + (i*7)%0x80)
		}
	case 2: // every byte value except '<'
		for i := range out {
			b := byte(i * 37)
			if b == '<' {
				b = '>'
			}
			out[i] = b
		}
	case 4: // well-formed UTF-8 with non-ASCII characters (2-, 3- and 4-byte sequences)
		const txt = "é日ÿ\u0080ü𝄞 "
		for i := range out {
			out[i] = txt[i%len(txt)]
		}
		// cut back to a character boundary so that the filler itself stays valid UTF-8
		for len(out) > 0 && !utf8.Valid(out) {
			out = out[:len(out)-1]
		}
	case 3: // mixed, with a run of high bytes of generated length at the front
		k := rapid.IntRange(0, n).Draw(t, "high-run")
		for i := range out {
			if i < k {
				out[i] = 0xE9
			} else {
				out[i] = 'x'
			}
		}
	}
	return out
}

func genC20(t *rapid.T) c20Case {
	var body []byte
	nseg := rapid.IntRange(0, 4).Draw(t, "nsegments")
	for s := 0; s <= nseg; s++ {
		var n int
		switch rapid.IntRange(0, 5).Draw(t, "seglen-kind") {
		case 0:
			n = rapid.IntRange(0, 40).Draw(t, "short")
		case 1:
			n = rapid.IntRange(c20Window-12, c20Window+12).Draw(t, "edge")
		case 2:
			n = rapid.IntRange(c20Window/2-8, c20Window/2+8).Draw(t, "half-edge") // high bytes double
		case 3:
			n = rapid.IntRange(0, 40*1024).Draw(t, "any")
		default:
			n = rapid.IntRange(0, 2000).Draw(t, "medium")
		}
		body = append(body, c20Filler(t, n, rapid.IntRange(0, 4).Draw(t, "filler"))...)
		if s < nseg {
			m := pick(t, "marker", []string{"</head", "<link", "<style", "<script", "</HEAD>", "<LiNk rel=x>", "<Style>", "<SCRIPT src=a>",
				"</hea", "<lin", "<styl", "<scrip", "< link", "<\x00link", "</head</head", "<sCRIPT",
				"<<script", "a<<LINK", "1<</HEAD", "<<<style", "\x1cscript", "\x1clink", "\x1cstyle", "<\x0fhead", "\x1c\x0fhead", "<\x0fHEAD", "<scr\x49pt", "<l\x09nk", "<SCR\u0130PT", "<scr\u0131pt",
				// a marker is a marker wherever it stands
				"<!-- <link rel=x href=old.css> -->", "<!--<script>", "<!doctype html <style", "<!-- </head --",
				// ordinary tags that are no markers
				"<html>", "<body>", "<BODY class=x>", "<!DOCTYPE html>", "<head>", "<div>", "</body>", "<html><body>", "<title>",
				// the address of the content script, merely mentioned
				" //injections.verif.example/content-script.js?x=1 ", "<!-- //injections.verif.example/content-script.js? -->"})
			body = append(body, m...)
		}
	}
	if len(body) > 48*1024 {
		body = body[:48*1024]
	}
	if chance(t, "json-like-start", 10) {
		body = append([]byte(pick(t, "json-start", []string{"{", "[", " \n{", "\t[", "{\"a\":1}", "[]"})), body...)
	}
	if chance(t, "body-is-a-gzip-stream", 15) {
		// the document itself is a complete gzip stream (a download, or a server compressing twice)
		var buf bytes.Buffer
		zw := gzip.NewWriter(&buf)
		_, _ = zw.Write(body[:min(len(body), 4096)])
		_, _ = zw.Write([]byte("<html><head><script>inner</script></head></html>"))
		_ = zw.Close()
		body = buf.Bytes()
	}
	c := c20Case{Body: body, Gzip: chance(t, "gzip", 4), CSP: chance(t, "csp", 4)}
	if chance(t, "stale-length", 4) {
		c.Length = int64(rapid.IntRange(1, 100000).Draw(t, "declared-length"))
	} else if chance(t, "no-declared-length", 4) {
		c.Length = -1
	}
	if c.Gzip && chance(t, "gzip-members", 3) {
		c.Members = rapid.IntRange(2, 4).Draw(t, "members")
	}
	c.AfterFailure = chance(t, "after-failed-response", 6)
	if rare(t, "several-mebibytes", 40) {
		// a body around and beyond 4 MiB
		c.Pad = pick(t, "pad", []int{4<<20 - len(c.Body), 4<<20 - len(c.Body) + 1, 4<<20 + 4096, 5 << 20, 1 << 20})
		if c.Pad < 0 {
			c.Pad = 4 << 20
		}
		c.Gzip = chance(t, "big-gzip", 2) || c.Gzip
	}
	return c
}

func init() { register("C20", checkC20) }

func TestC20(t *testing.T) {
	runProp(t, "C20", checkC20, nil, part[c20Case]{"bodies", scale(3000, 12000), genC20})
}

// FuzzC20: coverage-guided bodies (thorough tier).
func FuzzC20(f *testing.F) {
	f.Add([]byte("<html><head><title>x</title></head><body></body></html>"), false)
	f.Add([]byte("\xe9\xe9\xe9<SCRIPT>"), true)
	f.Add(append(bytes.Repeat([]byte{0xE9}, c20Window/2), []byte("</head>")...), false)
	f.Add(append(bytes.Repeat([]byte("a"), c20Window-1), []byte("<link>")...), false)
	f.Fuzz(func(t *testing.T, body []byte, gz bool) {
		if len(body) > 64*1024 {
			return
		}
		fuzzCheck(t, "C20", checkC20, c20Case{Body: body, Gzip: gz})
	})
}
