package props

import (
	"fmt"
	"strings"
	"testing"

	"github.com/AdguardTeam/urlfilter"
	"github.com/AdguardTeam/urlfilter/filterlist"
	"github.com/AdguardTeam/urlfilter/rules"
	"pgregory.net/rapid"
)

// C15 — the cosmetic engine returns exactly the applicable, non-excepted selectors.

type c15Case struct {
	Lines []string `json:"lines"`
	Hosts []string `json:"hosts"`
}

var c15Domains = []string{"example.org", "sub.example.org", "example.com", "google.*", "example.*", "a.com", "b.a.com", "kobe.jp", "x.kobe.jp", "github.io", "me.github.io", "org", "localhost",
	"ample.org", "notexample.org", "le.com", "ithub.io",
	"cafe.de", "www.example.org", "www.a.com"} // textual suffixes / extensions of other entries that do not sit on a label boundary
var c15Selectors = func() []string {
	sel := []string{".a", ".b", "#c", "div[x=\"1\"]", ".banner > a", "#c"}
	// selectors with equal FastHash
	for _, cp := range findColliders(".ad-", "", 2) {
		sel = append(sel, cp[0], cp[1])
	}
	for _, cp := range findColliders("#ad_", "", 1) {
		sel = append(sel, cp[0], cp[1])
	}
	return sel
}()

func c15HostsFor(lines []string) []string {
	hosts := []string{"example.org", "sub.example.org", "x.sub.example.org", "example.com", "google.co.uk", "www.google.com", "notexample.org",
		"a.com", "b.a.com", "c.b.a.com", "zzz.net", "x.google.y.notgoogle.com", "example.kobe.jp", "google.github.io", "example.local", "me.github.io", "localhost", "sub.localhost", "org", "example.org.", "sub..example.org", ".a.com", "ample.org", "x.ample.org", "le.com", "feed.cafe.de", "a1.cafe.de", "dead.beef.cafe.de", "cafe.de", "www.example.org", "www.a.com", "x.www.example.org"}
	return hosts
}

func checkC15(c c15Case, rec *Rec) *Violation {
	const id = "C15"
	txt := strings.Join(c.Lines, "\n") + "\n"
	st, err := filterlist.NewRuleStorage([]filterlist.RuleList{&filterlist.StringRuleList{ID: 1, RulesText: txt}})
	if err != nil {
		return viol(id, "C15:harness", "storage: %v", err)
	}
	ce := urlfilter.NewCosmeticEngine(st)
	eng := urlfilter.NewEngine(st)
	var parsed []*rules.CosmeticRule
	for _, ln := range c.Lines {
		ru, perr := rules.NewRule(ln, 1)
		if cr, ok := ru.(*rules.CosmeticRule); ok && perr == nil {
			parsed = append(parsed, cr)
		}
	}
	for _, h := range c.Hosts {
		// independent cross-check of "applies to the hostname" on the rule text
		for _, cr := range parsed {
			if got, want := cr.Match(h), c15RefApplies(cr.Text(), h); got != want {
				return viol(id, "C15:rule-applicability-differs", "rule %q on host %q: CosmeticRule.Match=%v, reference (listed domains and their sub-domains, wildcard TLD on a label boundary, minus excluded)=%v", cr.Text(), h, got, want)
			}
		}
		nontrivial := false
		for _, cr := range parsed {
			if cr.Whitelist && cr.Match(h) {
				nontrivial = true
			}
			for _, d := range cr.GetPermittedDomains() {
				if strings.HasSuffix(d, ".*") && cr.Match(h) {
					nontrivial = true
				}
				if h != d && strings.HasSuffix(h, "."+d) {
					nontrivial = true
				}
			}
		}
		if nontrivial {
			rec.NonTrivial(txt+"|"+h, map[string]any{"rules": c.Lines, "hostname": h})
		}
		for fl := 0; fl < 8; fl++ {
			css, js, gen := fl&1 != 0, fl&2 != 0, fl&4 != 0
			wg, ws := map[string]bool{}, map[string]bool{}
			if css {
				for _, cr := range parsed {
					// fresh objects: re-parse so that no engine state is shared
					if cr.Whitelist || !cr.Match(h) {
						continue
					}
					excepted := false
					for _, x := range parsed {
						if x.Whitelist && x.Content == cr.Content && x.Match(h) {
							excepted = true
						}
					}
					if excepted {
						continue
					}
					if cr.IsGeneric() {
						if gen {
							wg[cr.Content] = true
						}
					} else {
						ws[cr.Content] = true
					}
				}
			}
			var opt rules.CosmeticOption
			if css {
				opt |= rules.CosmeticOptionCSS
			}
			if js {
				opt |= rules.CosmeticOptionJS
			}
			if gen {
				opt |= rules.CosmeticOptionGenericCSS
			}
			for which, res := range []urlfilter.CosmeticResult{ce.Match(h, css, js, gen), eng.GetCosmeticResult(h, opt)} {
				gg, gs := setOf(res.ElementHiding.Generic), setOf(res.ElementHiding.Specific)
				if !sameSet(gg, wg) || !sameSet(gs, ws) {
					sig := "C15:selectors-differ"
					switch {
					case len(gs) < len(ws):
						sig = "C15:specific-selector-missing"
					case len(gs) > len(ws):
						sig = "C15:specific-selector-extra"
					case !sameSet(gg, wg):
						sig = "C15:generic-selectors-differ"
					}
					name := []string{"CosmeticEngine.Match", "Engine.GetCosmeticResult"}[which]
					return viol(id, sig, "rules %q, host %q, css=%v js=%v generic=%v: %s generic=%q specific=%q, reference generic=%q specific=%q",
						c.Lines, h, css, js, gen, name, sortedKeys(gg), sortedKeys(gs), sortedKeys(wg), sortedKeys(ws))
				}
				if n := len(res.ElementHiding.GenericExtCSS) + len(res.ElementHiding.SpecificExtCSS) + len(res.CSS.Generic) + len(res.CSS.Specific) + len(res.JS.Generic) + len(res.JS.Specific); n != 0 {
					return viol(id, "C15:unexpected-buckets", "rules %q host %q: %d entries in buckets no element-hiding rule can fill", c.Lines, h, n)
				}
			}
		}
	}
	rec.LabelN("host-flag-combinations", len(c.Hosts)*8)
	return nil
}

// c15RefApplies evaluates the domain list written before the marker.
func c15RefApplies(line, host string) bool {
	i := strings.Index(line, "#")
	if i <= 0 {
		return true
	}
	var perm, restr []string
	for _, d := range strings.Split(line[:i], ",") {
		if strings.HasPrefix(d, "~") {
			restr = append(restr, d[1:])
		} else {
			perm = append(perm, d)
		}
	}
	if refSubOfAny(host, restr) {
		return false
	}
	return len(perm) == 0 || refSubOfAny(host, perm)
}

func genC15(t *rapid.T) c15Case {
	var c c15Case
	k := rapid.IntRange(1, 25).Draw(t, "nrules")
	for i := 0; i < k; i++ {
		var ds []string
		nd := rapid.IntRange(0, 4).Draw(t, "ndomains")
		exc := chance(t, "exception", 4)
		for j := 0; j < nd; j++ {
			d := pick(t, "domain", c15Domains)
			if chance(t, "tiny-domain", 5) {
				d = tinyDomain(t)
			}
			if chance(t, "negated", 3) {
				d = "~" + d
			}
			ds = append(ds, d)
		}
		mk := "##"
		if exc {
			mk = "#@#"
		}
		c.Lines = append(c.Lines, strings.Join(ds, ",")+mk+pick(t, "selector", c15Selectors))
	}
	c.Hosts = subsetOf(t, "hosts", c15HostsFor(c.Lines), 8)
	// a confusable host of some rule domain
	for _, ln := range c.Lines {
		if i := strings.Index(ln, "#"); i > 0 && chance(t, "confusable", 3) {
			d := strings.TrimPrefix(pick(t, "confusable-of", strings.Split(ln[:i], ",")), "~")
			if strings.HasSuffix(d, ".*") {
				d = d[:len(d)-2] + "." + pick(t, "wsuf", wildSuffixes)
			}
			c.Hosts = append(c.Hosts, hostVariant(t, "variant", d))
		}
	}
	return c
}

func init() { register("C15", checkC15) }

func TestC15(t *testing.T) {
	_ = fmt.Sprint
	runProp(t, "C15", checkC15, nil, part[c15Case]{"cosmetic-lists", scale(4000, 15000), genC15})
}
