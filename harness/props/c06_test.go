package props

import (
	"fmt"
	"sort"
	"strings"
	"testing"

	"github.com/AdguardTeam/urlfilter"
	"github.com/AdguardTeam/urlfilter/rules"
	"pgregory.net/rapid"
)

// C06 — the verdict follows the documented precedence, whatever the rule order.

// Every request candidate matches http://ads.com/banner requested by
// http://ref.com/ as an image; every source candidate matches the referrer
// http://ref.com/ as a document (and not the request itself).
const (
	c06URL = "http://ads.com/banner"
	c06Src = "http://ref.com/"
)

var c06ReqCands = []string{
	"||ads.com^", "||ads.com^$important", "@@||ads.com^", "@@||ads.com^$important",
	"||ads.com^$domain=ref.com", "||ads.com^$domain=ref.com,important", "@@||ads.com^$domain=ref.com", "@@||ads.com^$domain=ref.com,important",
	"||ads.com^$image", "||ads.com^$third-party,image", "||ads.com^$domain=~x.com", "||ads.com^$domain=~x.com,important", "@@||ads.com^$image,important",
	"||ads.com^$dnsrewrite=1.2.3.4", "@@||ads.com^$dnsrewrite", "@@||ads.com^$stealth",
	"||ads.com^$badfilter", "||ads.com^$important,badfilter", "@@||ads.com^$badfilter", "||ads.com^$image,badfilter",
	"||ads.com^$domain=ref.com,badfilter", "@@||ads.com^$important,badfilter",
	"/banner", "/banner$important", "@@/banner$image", "/banner$badfilter",
	"||ads.com^$domain=ref.com|x.com", "||ads.com^$domain=x.com|x.com,badfilter", "||ads.com^$domain=x.com|ref.com,badfilter",
	// a $badfilter rule that carries a rewrite is the twin of the rewrite rule only, never of the plain rule
	"||ads.com^$dnsrewrite=1.2.3.4,badfilter", "@@||ads.com^$dnsrewrite,badfilter",
	// rewrites of record types without a value parser are rewrites all the same
	"||ads.com^$dnsrewrite=NOERROR;NS;ns1.example.net", "||ads.com^$dnsrewrite=NOERROR;SOA;x,important", "||ads.com^$dnsrewrite=NOERROR;CAA;0 issue x",
	// a stealth exception stays special-purpose whatever other flags it carries
	"@@||ads.com^$stealth,important", "@@||ads.com^$stealth,match-case", "@@||ads.com^$stealth,image",
}

var c06SrcCands = []string{
	"@@||ref.com^$urlblock", "@@||ref.com^$genericblock", "@@||ref.com^$urlblock,important", "@@||ref.com^$genericblock,important",
	"@@||ref.com^$document", "@@||ref.com^$elemhide", "@@||ref.com^$urlblock,badfilter", "@@||ref.com^$genericblock,badfilter",
	"||ref.com^", "@@||ref.com^$stealth", "@@||ref.com^$jsinject", "@@||ref.com^$genericblock,domain=~x.com", "@@||ref.com^$document,badfilter",
	"@@||ref.com^$urlblock,genericblock", "@@||ref.com^$genericblock,document", "@@||ref.com^$genericblock,urlblock,important",
	// a document-level exception that is a stealth exception as well
	"@@||ref.com^$document,stealth", "@@||ref.com^$urlblock,stealth", "@@||ref.com^$genericblock,stealth",
	// DNS rewrites never take part in a web verdict, on the referrer's side either
	"@@||ref.com^$urlblock,dnsrewrite", "@@||ref.com^$genericblock,dnsrewrite=1.2.3.4", "@@||ref.com^$document,dnsrewrite", "@@||ref.com^$urlblock,important,dnsrewrite",
}

// referrer-level exceptions for another page of the referrer's host: they match the
// referrer http://ref.com/checkout only, never the referrer of the request itself.
var c06DecoyCands = []string{"@@||ref.com/checkout^$urlblock", "@@||ref.com/checkout^$document,important", "@@||ref.com/checkout^$genericblock"}

const c06DecoySrc = "http://ref.com/checkout"

// host-level candidates for the DNS flavour, all matching host ads.com, type A.
var c06DNSCands = []string{
	"||ads.com^", "||ads.com^$important", "@@||ads.com^", "@@||ads.com^$important", "ads.com^$dnstype=A", "@@||ads.com^$dnstype=A",
	"||ads.com^$client=~1.1.1.1", "||ads.com^$dnsrewrite=1.2.3.4", "@@||ads.com^$dnsrewrite", "||ads.com^$important,dnsrewrite=NXDOMAIN",
	"||ads.com^$badfilter", "||ads.com^$important,badfilter", "@@||ads.com^$badfilter", "@@||ads.com^$important,badfilter", "ads.com^$dnstype=A,badfilter",
	"||ads.com^$denyallow=x.com", "@@||ads.com^$ctag=~tv", "@@||ads.com^$stealth", "@@||ads.com^$stealth,important",
	"||ads.com^$dnsrewrite=1.2.3.4,badfilter", "||ads.com^$dnsrewrite=NXDOMAIN,badfilter", "@@||ads.com^$dnsrewrite,badfilter",
	"||ads.com^$dnsrewrite=NOERROR;NS;ns1.example.net", "||ads.com^$dnsrewrite=NOERROR;SOA;x,important", "||ads.com^$dnsrewrite=NOERROR;CAA;0 issue x",
}

type c06Case struct {
	Req    []string `json:"req"`
	Src    []string `json:"src,omitempty"`
	DNS    bool     `json:"dns,omitempty"`
	Orders [][]int  `json:"orders,omitempty"` // line orders for the engine entry points
	Split  []int    `json:"split,omitempty"`  // list index per line (engine entry points)
	Decoys []string `json:"decoys,omitempty"` // exceptions for another page of the referrer's host (engine entry points)
}

type c06Feat struct {
	exc, imp, bad, rewrite, stealth, generic, urlblock, genericblock bool
	key                                                              string
}

// c06FeatOf reads the features off the rule text (independent of the parser).
func c06FeatOf(s string) c06Feat {
	var f c06Feat
	f.exc = strings.HasPrefix(s, "@@")
	body := strings.TrimPrefix(s, "@@")
	pat, opts, _ := strings.Cut(body, "$")
	f.generic = true
	var rest []string
	for _, o := range strings.Split(opts, ",") {
		switch {
		case o == "important":
			f.imp = true
		case o == "badfilter":
			f.bad = true
			continue
		case strings.HasPrefix(o, "dnsrewrite"):
			f.rewrite = true
		case o == "stealth":
			f.stealth = true
		case o == "urlblock" || o == "document":
			f.urlblock = true
		case o == "genericblock":
			f.genericblock = true
		case strings.HasPrefix(o, "domain="):
			for _, d := range strings.Split(strings.TrimPrefix(o, "domain="), "|") {
				if !strings.HasPrefix(d, "~") {
					f.generic = false
				}
			}
		}
		if o != "" {
			// the order of the values inside a list modifier is not part of a rule's identity
			if name, vals, ok := strings.Cut(o, "="); ok && strings.Contains(vals, "|") {
				vs := strings.Split(vals, "|")
				sort.Strings(vs)
				o = name + "=" + strings.Join(vs, "|")
			}
			rest = append(rest, o)
		}
	}
	sort.Strings(rest)
	f.key = fmt.Sprint(f.exc, pat, rest)
	return f
}

// c06RefClass is the documented precedence (property statement).
func c06RefClass(req, src []string) string {
	filter := func(xs []string) []c06Feat {
		var fs []c06Feat
		for _, x := range xs {
			fs = append(fs, c06FeatOf(x))
		}
		var out []c06Feat
		for _, f := range fs {
			if f.bad || f.rewrite {
				continue
			}
			neg := false
			for _, b := range fs {
				if b.bad && b.key == f.key {
					neg = true
				}
			}
			if !neg {
				out = append(out, f)
			}
		}
		return out
	}
	rq, sr := filter(req), filter(src)
	supAll, supGen, doc := false, false, false
	for _, f := range sr {
		if f.exc && (f.urlblock || f.genericblock) {
			doc = true
			if f.urlblock {
				supAll = true
			}
			if f.genericblock {
				supGen = true
			}
		}
	}
	impExc, impBlk, excp, blk := false, false, false, false
	for _, f := range rq {
		if f.stealth {
			continue
		}
		if !f.exc && (supAll || (supGen && f.generic)) {
			continue
		}
		switch {
		case f.exc && f.imp:
			impExc = true
		case f.imp:
			impBlk = true
		case f.exc:
			excp = true
		default:
			blk = true
		}
	}
	switch {
	case impExc:
		return "allow"
	case impBlk:
		return "block"
	case excp:
		return "allow"
	case blk:
		return "block"
	case doc:
		return "allow"
	}
	return "none"
}

func c06ClassOf(g *rules.NetworkRule) string {
	if g == nil {
		return "none"
	}
	// a document-level exception that also carries $stealth is still a document-level exception
	docLevel := g.Whitelist && (g.IsOptionEnabled(rules.OptionUrlblock) || g.IsOptionEnabled(rules.OptionGenericblock))
	if g.IsOptionEnabled(rules.OptionBadfilter) || g.DNSRewrite != nil || (g.IsOptionEnabled(rules.OptionStealth) && !docLevel) {
		return "SPECIAL(" + g.Text() + ")"
	}
	if g.Whitelist {
		return "allow"
	}
	return "block"
}

func c06Parse(xs []string) ([]*rules.NetworkRule, *Violation) {
	out := make([]*rules.NetworkRule, 0, len(xs))
	for _, s := range xs {
		r, err := rules.NewNetworkRule(s, 1)
		if err != nil {
			return nil, viol("C06", "C06:parse", "candidate %q rejected: %v", s, err)
		}
		out = append(out, r)
	}
	return out, nil
}

func c06Sig(c c06Case, entry string) string {
	docs := 0
	for _, s := range c.Src {
		f := c06FeatOf(s)
		if f.exc && !f.bad && (f.urlblock || f.genericblock) {
			docs++
		}
	}
	nbad := 0
	for _, s := range append(append([]string{}, c.Req...), c.Src...) {
		if c06FeatOf(s).bad {
			nbad++
		}
	}
	sig := "C06:class-differs:" + entry
	if docs >= 2 {
		sig += ":several-document-exceptions"
	}
	if nbad >= 2 {
		sig += ":several-badfilters"
	}
	return sig
}

func checkC06(c c06Case, rec *Rec) *Violation {
	const id = "C06"
	src := c.Src
	if c.DNS {
		src = nil
	}
	want := c06RefClass(c.Req, src)
	wantNoSrc := c06RefClass(c.Req, nil)
	classes := map[string]bool{}
	docExc := false
	for _, s := range c.Req {
		f := c06FeatOf(s)
		if !f.bad && !f.rewrite && !f.stealth {
			classes[fmt.Sprint(f.exc, f.imp)] = true
		}
	}
	for _, s := range src {
		f := c06FeatOf(s)
		if f.exc && (f.urlblock || f.genericblock) {
			docExc = true
		}
	}
	if len(classes) >= 2 || docExc {
		k := append(append([]string{}, c.Req...), "|")
		k = append(k, src...)
		sort.Strings(k)
		rec.NonTrivial(fmt.Sprint(c.DNS)+strings.Join(k, "\n"), map[string]any{"request_rules": c.Req, "referrer_rules": src, "dns": c.DNS, "reference_class": want})
	}
	rec.Label("reference-class:" + want)

	reqRules, v := c06Parse(c.Req)
	if v != nil {
		return v
	}
	srcRules, v := c06Parse(src)
	if v != nil {
		return v
	}
	// 1. parsed rules, all permutations (bounded)
	var res *Violation
	nperm := 0
	permBound := func(n int, f func(p []int) bool) {
		if n <= 5 {
			permutations(n, f)
			return
		}
		// rotations and reversals for longer lists
		p := make([]int, n)
		for r := 0; r < n; r++ {
			for i := range p {
				p[i] = (i + r) % n
			}
			if !f(p) {
				return
			}
			for i, j := 0, n-1; i < j; i, j = i+1, j-1 {
				p[i], p[j] = p[j], p[i]
			}
			if !f(p) {
				return
			}
		}
	}
	permBound(len(reqRules), func(p []int) bool {
		a := make([]*rules.NetworkRule, len(p))
		for i, x := range p {
			a[i] = reqRules[x]
		}
		if c.DNS {
			nperm++
			ra := append([]*rules.NetworkRule{}, a...)
			got := c06ClassOf(rules.GetDNSBasicRule(ra))
			if got != want {
				res = viol(id, c06Sig(c, "GetDNSBasicRule"), "GetDNSBasicRule(%q) -> %s, reference class %s", netTexts(a), got, want)
				return false
			}
			// the caller's slice evaluated once more: the same rules, the same verdict
			if got2 := c06ClassOf(rules.GetDNSBasicRule(ra)); got2 != want {
				res = viol(id, c06Sig(c, "GetDNSBasicRule")+":second-evaluation", "GetDNSBasicRule(%q) -> %s when the caller's slice is evaluated a second time (now %q), reference class %s", netTexts(a), got2, netTexts(ra), want)
				return false
			}
			return true
		}
		ok := true
		permBound(len(srcRules), func(ps []int) bool {
			b := make([]*rules.NetworkRule, len(ps))
			for i, x := range ps {
				b[i] = srcRules[x]
			}
			nperm++
			ra, rb := append([]*rules.NetworkRule{}, a...), append([]*rules.NetworkRule{}, b...)
			mr := rules.NewMatchingResult(ra, rb)
			got := c06ClassOf(mr.GetBasicResult())
			if got != want {
				res = viol(id, c06Sig(c, "NewMatchingResult"), "NewMatchingResult(rules=%q, sourceRules=%q).GetBasicResult() -> %s, reference class %s", netTexts(a), netTexts(b), got, want)
				ok = false
				return false
			}
			// the caller's slices evaluated once more: the same rules, the same verdict
			if got2 := c06ClassOf(rules.NewMatchingResult(ra, rb).GetBasicResult()); got2 != want {
				res = viol(id, c06Sig(c, "NewMatchingResult")+":second-evaluation", "NewMatchingResult(rules=%q, sourceRules=%q) -> %s when the caller's slices are evaluated a second time (now %q / %q), reference class %s",
					netTexts(a), netTexts(b), got2, netTexts(ra), netTexts(rb), want)
				ok = false
				return false
			}
			return true
		})
		return ok
	})
	rec.LabelN("permutations", nperm)
	if res != nil {
		return res
	}
	// 2. engines built from lists, for the given line orders and split
	lines := append(append([]string{}, c.Req...), src...)
	for _, ord := range c.Orders {
		if len(ord) != len(lines) {
			continue
		}
		nl := 1
		for _, s := range c.Split {
			if s+1 > nl {
				nl = s + 1
			}
		}
		lists := make([]ListSpec, nl)
		for i := range lists {
			lists[i].ID = i + 1
		}
		for _, x := range ord {
			li := 0
			if x < len(c.Split) {
				li = c.Split[x]
			}
			lists[li].Text += lines[x] + "\n"
		}
		if !c.DNS {
			for i, dl := range c.Decoys {
				lists[i%nl].Text += dl + "\n"
			}
		}
		st, cleanup, err := buildStorage(lists)
		if err != nil {
			return viol(id, "C06:harness", "storage: %v", err)
		}
		if c.DNS {
			d := urlfilter.NewDNSEngine(st)
			r, _ := d.MatchRequest(&urlfilter.DNSRequest{Hostname: "ads.com", DNSType: 1})
			got := c06ClassOf(r.NetworkRule)
			cleanup()
			if got != want {
				return viol(id, c06Sig(c, "DNSEngine"), "DNSEngine over lists %+v -> %s, reference class %s", lists, got, want)
			}
			continue
		}
		e := urlfilter.NewEngine(st)
		if len(c.Decoys) > 0 {
			// the same engine is first asked about the request coming from another page of the referrer's host
			wantDecoy := c06RefClass(c.Req, append(append([]string{}, src...), c.Decoys...))
			if g := c06ClassOf(e.MatchRequest(rules.NewRequest(c06URL, c06DecoySrc, rules.TypeImage)).GetBasicResult()); g != wantDecoy {
				cleanup()
				return viol(id, c06Sig(c, "Engine.MatchRequest")+":other-referrer-page", "Engine.MatchRequest from referrer %s over lists %+v -> %s, reference class %s", c06DecoySrc, lists, g, wantDecoy)
			}
		}
		got := c06ClassOf(e.MatchRequest(rules.NewRequest(c06URL, c06Src, rules.TypeImage)).GetBasicResult())
		// The referrer's host written with capital letters: patterns are applied case-insensitively, so the referrer
		// candidates match as before; $domain values are compared with the source host as written, so request
		// candidates that demand $domain=ref.com do not match this request (nor do their badfilter twins).
		var reqCaps []string
		for _, x := range c.Req {
			positive := false
			_, opts, _ := strings.Cut(x, "$")
			for _, o := range strings.Split(opts, ",") {
				if v, ok := strings.CutPrefix(o, "domain="); ok {
					for _, d := range strings.Split(v, "|") {
						if !strings.HasPrefix(d, "~") {
							positive = true
						}
					}
				}
			}
			if !positive {
				reqCaps = append(reqCaps, x)
			}
		}
		wantCaps := c06RefClass(reqCaps, src)
		if g := c06ClassOf(e.MatchRequest(rules.NewRequest(c06URL, "http://REF.com/", rules.TypeImage)).GetBasicResult()); g != wantCaps {
			cleanup()
			return viol(id, c06Sig(c, "Engine.MatchRequest")+":referrer-in-capitals", "Engine.MatchRequest from referrer http://REF.com/ over lists %+v -> %s, reference class %s", lists, g, wantCaps)
		}
		if len(src) > 0 {
			// a request of the referrer page to itself (URL == source URL): its own rules are the referrer candidates that
			// are not document-only, its referrer rules are all referrer candidates
			var own []string
			for _, x := range src {
				docOnly := false
				_, opts, _ := strings.Cut(x, "$")
				for _, o := range strings.Split(opts, ",") {
					switch o {
					case "urlblock", "genericblock", "document", "elemhide", "jsinject", "generichide", "content", "extension":
						docOnly = true
					}
				}
				if !docOnly {
					own = append(own, x)
				}
			}
			wantSelf := c06RefClass(own, src)
			if g := c06ClassOf(e.MatchRequest(rules.NewRequest(c06Src, c06Src, rules.TypeImage)).GetBasicResult()); g != wantSelf {
				cleanup()
				return viol(id, c06Sig(c, "Engine.MatchRequest")+":self-request", "Engine.MatchRequest(%s requested from itself) over lists %+v -> %s, reference class %s", c06Src, lists, g, wantSelf)
			}
		}
		if len(c.Decoys) > 0 && got == want {
			wantDecoy := c06RefClass(c.Req, append(append([]string{}, src...), c.Decoys...))
			if g := c06ClassOf(e.MatchRequest(rules.NewRequest(c06URL, c06DecoySrc, rules.TypeImage)).GetBasicResult()); g != wantDecoy {
				cleanup()
				return viol(id, c06Sig(c, "Engine.MatchRequest")+":other-referrer-page", "Engine.MatchRequest from referrer %s (after a request from %s) over lists %+v -> %s, reference class %s", c06DecoySrc, c06Src, lists, g, wantDecoy)
			}
		}
		ne := urlfilter.NewNetworkEngine(st)
		r2, ok2 := ne.Match(rules.NewRequest(c06URL, c06Src, rules.TypeImage))
		got2 := c06ClassOf(r2)
		cleanup()
		if got != want {
			return viol(id, c06Sig(c, "Engine.MatchRequest"), "Engine.MatchRequest over lists %+v -> %s, reference class %s", lists, got, want)
		}
		if got2 != wantNoSrc || ok2 != (r2 != nil) {
			return viol(id, c06Sig(c, "NetworkEngine.Match"), "NetworkEngine.Match over lists %+v -> %s (ok=%v), reference class without referrer rules %s", lists, got2, ok2, wantNoSrc)
		}
	}
	return nil
}

func genC06(t *rapid.T) c06Case {
	var c c06Case
	c.DNS = chance(t, "dns", 4)
	if c.DNS {
		c.Req = subsetOf(t, "dns-cands", c06DNSCands, 6)
	} else {
		c.Req = subsetOf(t, "req-cands", c06ReqCands, 6)
		if chance(t, "with-src", 2) {
			c.Src = subsetOf(t, "src-cands", c06SrcCands, 4)
		}
	}
	if !c.DNS && chance(t, "other-referrer-page", 3) {
		c.Decoys = subsetOf(t, "decoys", c06DecoyCands, 2)
	}
	if chance(t, "duplicate-rule", 3) {
		// the same rule text twice (e.g. present in two lists)
		c.Req = append(c.Req, c.Req[rapid.IntRange(0, len(c.Req)-1).Draw(t, "dup-of")])
	}
	n := len(c.Req) + len(c.Src)
	idx := make([]int, n)
	for i := range idx {
		idx[i] = i
	}
	for k := rapid.IntRange(1, 3).Draw(t, "norders"); k > 0; k-- {
		if n > 1 {
			c.Orders = append(c.Orders, rapid.Permutation(idx).Draw(t, "order"))
		} else {
			c.Orders = append(c.Orders, idx)
		}
	}
	nl := rapid.IntRange(1, 3).Draw(t, "nlists")
	for i := 0; i < n; i++ {
		c.Split = append(c.Split, rapid.IntRange(0, nl-1).Draw(t, "split"))
	}
	return c
}

func init() { register("C06", checkC06) }

func TestC06(t *testing.T) {
	runProp(t, "C06", checkC06, nil, part[c06Case]{"candidate-multisets", scale(5000, 15000), genC06})
}
