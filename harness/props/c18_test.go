package props

import (
	"net/netip"
	"strings"
	"testing"

	"github.com/AdguardTeam/urlfilter"
	"github.com/AdguardTeam/urlfilter/filterlist"
	"github.com/AdguardTeam/urlfilter/rules"
	"pgregory.net/rapid"
)

// C18 — hosts-file lines yield exactly the listed names with the given address.

type c18Case struct {
	Bare     bool     `json:"bare,omitempty"`
	IP       string   `json:"ip,omitempty"`
	Names    []string `json:"names"`
	Seps     []string `json:"seps,omitempty"` // blank runs between the tokens
	Comment  *string  `json:"comment,omitempty"`
	Blank    string   `json:"blank,omitempty"` // blank run before the comment sign
	Trailing string   `json:"trailing,omitempty"`
	Probes   []string `json:"probes,omitempty"` // further names to query
}

var c18Markers = []string{"##", "#@#", "#?#", "#@?#", "#$#", "#@$#", "#$?#", "#@$?#", "#%#", "#@%#"}

func (c c18Case) line() string {
	var sb strings.Builder
	if c.Bare {
		sb.WriteString(c.Names[0])
	} else {
		sb.WriteString(c.IP)
		for i, n := range c.Names {
			sep := " "
			if i < len(c.Seps) && c.Seps[i] != "" {
				sep = c.Seps[i]
			}
			sb.WriteString(sep)
			sb.WriteString(n)
		}
	}
	if c.Comment != nil {
		sb.WriteString(c.Blank)
		sb.WriteString("#")
		sb.WriteString(*c.Comment)
	}
	sb.WriteString(c.Trailing)
	return sb.String()
}

// inContract: a comment that starts with an element-hiding style marker must
// be preceded by a blank, otherwise the line is cosmetic syntax by definition.
func (c c18Case) inContract() bool {
	if len(c.Names) == 0 {
		return false
	}
	for _, n := range c.Names {
		if n == "" || strings.ContainsAny(n, " \t#$\n\r") {
			return false
		}
	}
	for _, s := range append(append([]string{}, c.Seps...), c.Blank, c.Trailing) {
		if strings.Trim(s, " \t") != "" {
			return false
		}
	}
	if c.Bare && len(c.Names) != 1 {
		return false
	}
	if !c.Bare {
		if _, err := netip.ParseAddr(c.IP); err != nil || strings.ContainsAny(c.IP, " \t#$\n\r") {
			return false // not an address token (netip accepts blanks inside a zone)
		}
	}
	if c.Comment != nil {
		if strings.ContainsAny(*c.Comment, "\n\r") {
			return false
		}
		if c.Blank == "" {
			full := "#" + *c.Comment
			for _, mk := range c18Markers {
				if strings.HasPrefix(full, mk) {
					return false
				}
			}
		}
	}
	return true
}

func c18Sig(c c18Case, base string) string {
	if c.Comment != nil {
		cm := *c.Comment
		switch {
		case strings.Contains(cm, "$$") || strings.Contains(cm, "$@$"):
			return base + ":html-marker-in-comment"
		case c.Blank == "":
			return base + ":comment-without-blank"
		case strings.HasSuffix(c.Blank, "\t"):
			return base + ":tab-before-comment"
		}
		return base + ":with-comment"
	}
	return base
}

func checkC18(c c18Case, rec *Rec) *Violation {
	const id = "C18"
	if !c.inContract() {
		rec.Label("skipped:outside-contract")
		return nil
	}
	line := c.line()
	wantIP := netip.IPv4Unspecified()
	if !c.Bare {
		wantIP = netip.MustParseAddr(c.IP)
	}
	if c.Comment != nil || len(c.Names) >= 2 || wantIP.Is6() {
		rec.NonTrivial(line, map[string]any{"line": line, "names": c.Names, "ip": wantIP.String()})
	}
	ru, err := rules.NewRule(line, 3)
	h, ok := ru.(*rules.HostRule)
	if err != nil || !ok || h == nil {
		return viol(id, c18Sig(c, "C18:not-a-host-rule"), "line %q: NewRule returned %T, err=%v (want a host rule for %q)", line, ru, err, c.Names)
	}
	if strings.Join(h.Hostnames, " ") != strings.Join(c.Names, " ") || len(h.Hostnames) != len(c.Names) {
		return viol(id, c18Sig(c, "C18:names-differ"), "line %q: Hostnames=%q, listed names=%q", line, h.Hostnames, c.Names)
	}
	if h.IP != wantIP {
		return viol(id, "C18:ip-differs", "line %q: IP=%v, want %v", line, h.IP, wantIP)
	}
	if h.Text() != strings.TrimSpace(line) || h.GetFilterListID() != 3 {
		return viol(id, "C18:text-or-id", "line %q: Text=%q id=%d", line, h.Text(), h.GetFilterListID())
	}
	listed := setOf(c.Names)
	probes := append([]string{}, c.Names...)
	probes = append(probes, c.Probes...)
	for _, n := range c.Names {
		if len(n) > 1 {
			probes = append(probes, n[:len(n)-1], n[1:], n+"x", "x"+n, strings.ToUpper(n))
		}
	}
	// names that share the 32-bit FastHash with a listed name must not be answered
	for _, cp := range hostColliders {
		if listed[cp[0]] {
			probes = append(probes, cp[1])
		}
		if listed[cp[1]] {
			probes = append(probes, cp[0])
		}
	}
	if c.Comment != nil {
		probes = append(probes, strings.Fields(strings.NewReplacer("#", " ", ",", " ").Replace(*c.Comment))...)
	}
	// through the DNS engine, together with a second line that shares a name
	other := "10.9.8.7 other.example " + c.Names[0]
	lineNames := map[string][]string{strings.TrimSpace(line): c.Names, other: {"other.example", c.Names[0]}}
	text := line + "\n" + other + "\n"
	if len(c.Names) >= 2 {
		third := "10.9.8.6 third.example " + c.Names[1]
		fourth := "::2 " + c.Names[len(c.Names)-1] + " " + c.Names[0]
		lineNames[third] = []string{"third.example", c.Names[1]}
		lineNames[fourth] = []string{c.Names[len(c.Names)-1], c.Names[0]}
		text += third + "\n" + fourth + "\n"
	}
	// another line of the same list with the same address and one shared name: two rules, both answered
	fifth := wantIP.String() + " same-ip.example " + c.Names[0]
	lineNames[fifth] = []string{"same-ip.example", c.Names[0]}
	text += fifth + "\n"
	if hash64(line)%7 < 3 {
		text = strings.ReplaceAll(text, "\n", "\r\n") // the same lines with CR LF endings
	}
	if hash64(line)%5 == 1 {
		text = "\xef\xbb\xbf! Title: hosts\n" + text // a list that starts with a byte-order mark
	}
	// the list id varies with the line; 0 makes the storage index of the first line 0
	// (cosmetic rules are ignored for some lists: hosts lines are not cosmetic rules)
	st, err := filterlist.NewRuleStorage([]filterlist.RuleList{&filterlist.StringRuleList{ID: []int{0, 3, -1}[hash64(line)%3], RulesText: text, IgnoreCosmetic: hash64(line)%5 < 2}})
	if err != nil {
		return viol(id, "C18:harness", "storage: %v", err)
	}
	d := urlfilter.NewDNSEngine(st)
	for _, p := range probes {
		if p == "" {
			continue
		}
		if got := h.Match(p); got != listed[p] {
			return viol(id, c18Sig(c, "C18:match-differs"), "line %q: HostRule.Match(%q)=%v, listed=%v", line, p, got, listed[p])
		}
		// the record type asked for does not change which lines name p
		res, _ := d.MatchRequest(&urlfilter.DNSRequest{Hostname: p, DNSType: []uint16{0, 1, 28, 16}[hash64(p+line)%4]})
		// every line naming p, and no other, is answered
		wantLines, gotLines := map[string]bool{}, map[string]bool{}
		for ln, names := range lineNames {
			if inList(p, names) {
				wantLines[ln] = true
			}
		}
		for _, x := range append(append([]*rules.HostRule{}, res.HostRulesV4...), res.HostRulesV6...) {
			gotLines[x.Text()] = true
		}
		if !sameSet(wantLines, gotLines) {
			return viol(id, c18Sig(c, "C18:engine-lines-differ"), "list %q: DNSEngine.Match(%q) returns the lines %q, the lines naming it are %q", text, p, sortedKeys(gotLines), sortedKeys(wantLines))
		}
		in4, in6 := false, false
		for _, x := range res.HostRulesV4 {
			if x.Text() == strings.TrimSpace(line) {
				in4 = true
			}
		}
		for _, x := range res.HostRulesV6 {
			if x.Text() == strings.TrimSpace(line) {
				in6 = true
			}
		}
		want4 := listed[p] && !strings.Contains(wantIP.String(), ":")
		want6 := listed[p] && strings.Contains(wantIP.String(), ":")
		if in4 != want4 || in6 != want6 {
			return viol(id, c18Sig(c, "C18:engine-differs"), "line %q: DNSEngine.Match(%q) returns the rule under V4=%v V6=%v, want V4=%v V6=%v", line, p, in4, in6, want4, want6)
		}
	}
	if hash64(line)%4 == 1 {
		// three lists, the middle one without any rule: the line under test is in the last one
		st3, err3 := filterlist.NewRuleStorage([]filterlist.RuleList{
			&filterlist.StringRuleList{ID: 11, RulesText: other + "\n"},
			&filterlist.StringRuleList{ID: 12, RulesText: "# nothing but a comment\n\n! and another\n"},
			&filterlist.StringRuleList{ID: 13, RulesText: line + "\n"}})
		if err3 != nil {
			return viol(id, "C18:harness", "storage: %v", err3)
		}
		d3 := urlfilter.NewDNSEngine(st3)
		for _, nm := range c.Names {
			res, _ := d3.Match(nm)
			found := false
			for _, x := range append(append([]*rules.HostRule{}, res.HostRulesV4...), res.HostRulesV6...) {
				if x.Text() == strings.TrimSpace(line) {
					found = true
				}
			}
			if !found {
				return viol(id, c18Sig(c, "C18:engine-differs:third-of-three-lists"), "lists [%q] [comments only] [%q]: DNSEngine.Match(%q) does not return the line", other, line, nm)
			}
		}
	}
	if hash64(line)%2 == 0 {
		// the same lines in a file, the line under test last and without a line feed
		fst, fcleanup, ferr := buildStorage([]ListSpec{{ID: 7, Text: other + "\n" + fifth + "\n" + line, File: true}})
		if ferr != nil {
			return viol(id, "C18:harness", "storage: %v", ferr)
		}
		fd := urlfilter.NewDNSEngine(fst)
		// the lines are asked about in the order they stand in the file
		for _, pre := range []string{"other.example", "same-ip.example"} {
			res, _ := fd.Match(pre)
			if len(res.HostRulesV4)+len(res.HostRulesV6) == 0 {
				fcleanup()
				return viol(id, c18Sig(c, "C18:engine-differs:file-backed-lines-in-order"), "file-backed list %q: DNSEngine.Match(%q) returns no host rule", other+"\n"+fifth+"\n"+line, pre)
			}
		}
		for _, nm := range c.Names {
			res, _ := fd.Match(nm)
			found := false
			for _, x := range append(append([]*rules.HostRule{}, res.HostRulesV4...), res.HostRulesV6...) {
				if x.Text() == strings.TrimSpace(line) {
					found = true
				}
			}
			if !found {
				fcleanup()
				return viol(id, c18Sig(c, "C18:engine-differs:file-backed-last-line"), "file-backed list ending in the unterminated line %q: DNSEngine.Match(%q) does not return the line", line, nm)
			}
		}
		// the first line once more, after the others have been read: still the same rule, text and all
		res, _ := fd.Match("other.example")
		okAgain := false
		for _, x := range res.HostRulesV4 {
			if x.Text() == other && inList("other.example", x.Hostnames) {
				okAgain = true
			}
		}
		if !okAgain {
			fcleanup()
			return viol(id, c18Sig(c, "C18:engine-differs:file-backed-asked-again"), "file-backed list: DNSEngine.Match(other.example) asked again after the other lines returns %q, want the line %q", hostTexts(res.HostRulesV4), other)
		}
		fcleanup()
	}
	rec.LabelN("probes", len(probes))
	return nil
}

var c18NamePool = []string{"example.org", "a.com", "sub.a-b.co.uk", "xn--p1ai.xn--p1ai", "x1.y2.zz", "localhost.localdomain", "example.or", "xample.org", "b.example.org", "Printer.LAN", "Ads.Example.COM",
	"face.cc", "abc.de", "0.cc", "bad.ac", "b.ac.be", // spelled with hexadecimal digits only
	zeroHashNames[0], zeroHashNames[1], // names whose hash is 0
	// names of 64 and more bytes (labels stay below 64)
	strings.Repeat("a", 59) + ".com", strings.Repeat("a", 60) + ".com", strings.Repeat("b", 63) + "." + strings.Repeat("c", 63) + ".example",
	strings.Repeat("d", 63) + "." + strings.Repeat("e", 63) + "." + strings.Repeat("f", 63) + "." + strings.Repeat("g", 57) + ".com"}
var c18IPs = []string{"0.0.0.0", "127.0.0.1", "::", "::1", "::ffff:1.2.3.4", "fe80::1", "2001:db8::1", "10.1.2.3", "255.255.255.255", "0:0:0:0:0:0:0:1",
	"0000:0000:0000:0000:0000:ffff:192.168.100.200", "2001:0db8:0000:0000:0000:0000:192.168.100.100", "fe80::1%eth0"}

func c18WS(t *rapid.T, label string) string {
	return rapid.StringMatching(`[ \t]{1,3}`).Draw(t, label)
}

func init() {
	for _, cp := range hostColliders[:3] {
		c18NamePool = append(c18NamePool, cp[0], cp[1])
	}
}

func genC18(t *rapid.T) c18Case {
	var c c18Case
	c.Bare = chance(t, "bare", 4)
	if c.Bare {
		c.Names = []string{pick(t, "name", c18NamePool)}
	} else {
		c.IP = pick(t, "ip", c18IPs)
		n := rapid.IntRange(1, 8).Draw(t, "nnames")
		for i := 0; i < n; i++ {
			nm := pick(t, "name", c18NamePool)
			if chance(t, "generated-name", 3) {
				nm = rapid.StringMatching(`[a-z0-9]([a-z0-9-]{0,6}[a-z0-9])?(\.[a-z0-9]{1,5}){1,2}`).Draw(t, "gname")
			}
			if chance(t, "non-ascii-name", 10) {
				// after an address any token is a name; these hold the bytes 0xA0 / 0x85 inside a character
				nm = pick(t, "na-name", []string{"voilà.example.org", "хост.example.org", "àà.example", "х.х"})
			}
			c.Names = append(c.Names, nm)
			c.Seps = append(c.Seps, c18WS(t, "sep"))
		}
	}
	if chance(t, "comment", 2) {
		var cm string
		switch rapid.IntRange(0, 4).Draw(t, "comment-kind") {
		case 0:
			cm = rapid.StringMatching(`[ -~]{0,12}`).Draw(t, "comment-text")
		case 1:
			cm = pick(t, "marker-tail", []string{"#", "@#", "?#", "$#", "%#", "@$?#", "# phishing", "@# x"}) + rapid.StringMatching(`[ -~]{0,6}`).Draw(t, "after-marker")
		case 2:
			cm = " " + pick(t, "pool-name-in-comment", c18NamePool) + " " + rapid.StringMatching(`[ -~]{0,6}`).Draw(t, "tail")
		case 3:
			cm = pick(t, "dollar", []string{" a$$b", "$$", " x$@$y", " price: $5", "$", " $domain=x"}) + rapid.StringMatching(`[ -~]{0,4}`).Draw(t, "tail2")
		case 4:
			cm = pick(t, "plain", []string{"note", " note", "", " ", "\tnote", "!x", " ||x^",
				// element-hiding markers further inside the comment
				" publicit\xe9", "\xff\xfe", " caf\xe9 # x", // legacy 8-bit text
				" replaces a.org##.banner", "see issue##12", " a##b", " x#@#y", "note #?#z", " a.org#$#body{}"})
		}
		c.Comment = &cm
		if chance(t, "blank-before", 2) {
			c.Blank = c18WS(t, "blank")
		}
		if !c.inContract() {
			// a comment starting with a cosmetic marker needs a blank before it
			c.Blank = c18WS(t, "forced-blank")
		}
		if chance(t, "comment-across-read-buffer", 25) {
			// a long comment in which a name (or an address and a name) starts exactly where a read buffer
			// of the list scanner ends, counted from the start of the line
			empty := ""
			c.Comment = &empty
			pre := len(c.line())
			target := pick(t, "buffer-end", []int{4096, 4096, 4095, 4097, 8192})
			long := " " + strings.Repeat("y", target-pre-2) + " " + pick(t, "cut-text", []string{"cut.example", "1.2.3.4 cut.example", "::1 cut.example"})
			c.Comment = &long
		}
	}
	if chance(t, "trailing", 3) {
		c.Trailing = c18WS(t, "trailing-ws")
	}
	if chance(t, "probe", 2) {
		c.Probes = []string{pick(t, "probe-name", c18NamePool)}
	}
	return c
}

func init() { register("C18", checkC18) }

func TestC18(t *testing.T) {
	runProp(t, "C18", checkC18, nil, part[c18Case]{"hosts-lines", scale(20000, 80000), genC18})
}

// FuzzC18 mutates the free parts of a hosts line (thorough tier).
func FuzzC18(f *testing.F) {
	f.Add("0.0.0.0", "example.org a.com", " ", "# note", true)
	f.Add("::1", "localhost.localdomain", "\t", "## phishing", true)
	f.Add("127.0.0.1", "a.com", "", "note$$x", true)
	f.Add("", "example.org", "", "", false)
	f.Fuzz(func(t *testing.T, ip, names, blank, comment string, hasComment bool) {
		c := c18Case{IP: ip, Names: strings.Fields(names), Blank: blank}
		if ip == "" {
			c.Bare = true
		}
		for range c.Names {
			c.Seps = append(c.Seps, " ")
		}
		if hasComment {
			c.Comment = &comment
		}
		if c.Bare && (len(c.Names) != 1 || !isPlainDomain(c.Names[0])) {
			return
		}
		for _, n := range c.Names {
			if !isPrintable(n) {
				return
			}
		}
		if !isPrintable(comment) {
			return
		}
		fuzzCheck(t, "C18", checkC18, c)
	})
}

func isPrintable(s string) bool {
	for i := 0; i < len(s); i++ {
		if s[i] < 0x20 && s[i] != '\t' || s[i] > 0x7e {
			return false
		}
	}
	return true
}

// isPlainDomain: lower-case letters/digits/hyphens in dot-separated labels,
// alphabetic last label of >= 2 characters (a subset of what is documented as
// a valid domain name).
func isPlainDomain(s string) bool {
	labels := strings.Split(s, ".")
	if len(labels) < 2 || len(s) > 100 {
		return false
	}
	for i, l := range labels {
		if l == "" || len(l) > 30 || l[0] == '-' || l[len(l)-1] == '-' {
			return false
		}
		for _, ch := range l {
			alpha := ch >= 'a' && ch <= 'z'
			if !(alpha || (i < len(labels)-1 && (ch >= '0' && ch <= '9' || ch == '-'))) {
				return false
			}
		}
		if i == len(labels)-1 && len(l) < 2 {
			return false
		}
	}
	return true
}
