package props

import (
	"fmt"
	"strings"
	"testing"

	"github.com/AdguardTeam/urlfilter/rules"
	"pgregory.net/rapid"
)

// C04 — a rule matches iff its pattern and every modifier are satisfied.

type c04Case struct {
	Model NetModel `json:"model"`
	Texts []string `json:"texts"` // renderings of Model with different modifier/value orders
	Reqs  []Q      `json:"reqs"`
}

func checkC04(c c04Case, rec *Rec) *Violation {
	const id = "C04"
	var parsed []*rules.NetworkRule
	for _, txt := range c.Texts {
		r, err := rules.NewNetworkRule(txt, 1)
		if err != nil {
			if wideMask(c.Model.Pat) && !c.Model.hasRestriction() {
				rec.Label("too-wide-rejected")
				return nil
			}
			return viol(id, "C04:parse", "generated rule %q rejected: %v", txt, err)
		}
		parsed = append(parsed, r)
	}
	for _, q := range c.Reqs {
		want, why := refMatch(c.Model, q)
		rec.Label("decided-by:" + why)
		patOK := parseRefMask(c.Model.Pat).match(refTarget(c.Model.Pat, q), c.Model.MC)
		if c.Model.modifierCount() >= 2 && patOK {
			rec.NonTrivial(c.Texts[0]+"|"+q.key(), map[string]any{"rule": c.Texts[0], "request": q, "reference": want, "decided_by": why})
		}
		for i, r := range parsed {
			got := r.Match(mkReq(q))
			if got != want {
				sig := "C04:" + why
				if want {
					sig = "C04:rejected-although-all-hold"
				}
				if wildcardBoundary(c.Model, q) {
					sig += ":wildcard-tld"
				}
				return viol(id, sig, "rule %q (rendering %d of %d) on request %+v: Match=%v, reference=%v (%s)", c.Texts[i], i+1, len(parsed), q, got, want, why)
			}
		}
	}
	return nil
}

// wildcardBoundary flags cases that involve a name.* domain value (used to
// make signatures narrow).
func wildcardBoundary(m NetModel, q Q) bool {
	for _, d := range append(append([]string{}, m.DPerm...), m.DRestr...) {
		if strings.HasSuffix(d, ".*") {
			return true
		}
	}
	for _, d := range m.Deny {
		if strings.HasSuffix(d, ".*") {
			return true
		}
	}
	return false
}

func (q Q) key() string {
	return strings.Join([]string{q.URL, q.Src, q.Typ, q.Hostname, q.DNSType, q.CName, q.CIP, strings.Join(q.Tags, ","), fmt.Sprint(q.CosmeticOpt)}, "|")
}

func genC04(t *rapid.T) c04Case {
	m := genNetModel(t, modelOpts{})
	if chance(t, "non-ascii-capital-pattern", 10) && !isRegexText(m.Pat) {
		// a capital letter outside ASCII, spelled the same way in the pattern and in the addresses
		m.Pat = pick(t, "nac-pat", []string{"/Äpfel/x", "||example.org/Äpfel", "РЕКЛАМА", "/Äpfel/*"})
	}
	if wideMask(m.Pat) && !m.hasRestriction() {
		m.DPerm = []string{"example.org"}
	}
	c := c04Case{Model: m}
	c.Texts = []string{renderNet(t, m), renderNet(t, m)}
	n := rapid.IntRange(3, 8).Draw(t, "nreq")
	for i := 0; i < n; i++ {
		c.Reqs = append(c.Reqs, genQNear(t, m))
	}
	return c
}

func init() { register("C04", checkC04) }

func TestC04(t *testing.T) {
	runProp(t, "C04", checkC04, nil, part[c04Case]{"modifier-grammar", scale(15000, 60000), genC04})
}
