package props

import (
	"fmt"
	"reflect"
	"strings"
	"sync/atomic"

	"github.com/AdguardTeam/urlfilter"
	"github.com/AdguardTeam/urlfilter/filterlist"
	"github.com/AdguardTeam/urlfilter/rules"
	"pgregory.net/rapid"
)

// engSet is one storage with the three engines built over it.
type engSet struct {
	st      *filterlist.RuleStorage
	e       *urlfilter.Engine
	n       *urlfilter.NetworkEngine
	d       *urlfilter.DNSEngine
	cleanup func()
}

func newEngSet(lists []ListSpec) (*engSet, error) {
	st, cleanup, err := buildStorage(lists)
	if err != nil {
		return nil, err
	}
	return &engSet{st: st, e: urlfilter.NewEngine(st), n: urlfilter.NewNetworkEngine(st), d: urlfilter.NewDNSEngine(st), cleanup: cleanup}, nil
}

func ruleText(r *rules.NetworkRule) string {
	if r == nil {
		return "<nil>"
	}
	return r.Text()
}

func hostTexts(hs []*rules.HostRule) []string {
	out := make([]string, 0, len(hs))
	for _, h := range hs {
		out = append(out, h.Text())
	}
	return out
}

// snapDNS is the canonical snapshot of a DNS result: rule texts as sorted
// multisets, flags, and the derived rewrites.
func snapDNS(res *urlfilter.DNSResult, matched bool) string {
	// the fields are read before any derived-result method runs, and again afterwards
	fields := func() string {
		// rule texts and the data the rewrite rules carry
		return fmt.Sprintf("%q|%q|%q|%q|%q", ruleText(res.NetworkRule), netTexts(res.NetworkRules), hostTexts(res.HostRulesV4), hostTexts(res.HostRulesV6), rewriteValues(res.NetworkRules))
	}
	before := fields()
	_, _ = res.DNSRewritesAll(), res.DNSRewrites()
	_ = rules.GetDNSBasicRule(res.NetworkRules)
	mutated := ""
	if after := fields(); after != before {
		mutated = fmt.Sprintf(" %s(before=%s after=%s)", getterMutatedMarker, before, after)
	}
	return mutated + fmt.Sprintf("matched=%v basic=%q all=%q v4=%q v6=%q rewritesAll=%q rewrites=%q values=%q", matched, ruleText(res.NetworkRule),
		sortedList(netTexts(res.NetworkRules)), sortedList(hostTexts(res.HostRulesV4)), sortedList(hostTexts(res.HostRulesV6)),
		sortedList(netTexts(res.DNSRewritesAll())), sortedList(netTexts(res.DNSRewrites())), sortedList(rewriteValues(res.DNSRewritesAll())))
}

// getterMutatedMarker appears in a snapshot when calling the derived-result
// methods changed the result object itself.
const getterMutatedMarker = "GETTER-MUTATED-RESULT"

func snapWeb(mr *rules.MatchingResult) string {
	fields := func() string {
		return fmt.Sprintf("%q|%q|%q|%d|%d|%d|option=%d", ruleText(mr.BasicRule), ruleText(mr.DocumentRule), ruleText(mr.StealthRule),
			len(mr.CspRules), len(mr.CookieRules), len(mr.ReplaceRules), mr.GetCosmeticOption())
	}
	before := fields()
	_ = mr.GetBasicResult()
	mutated := ""
	if after := fields(); after != before {
		mutated = fmt.Sprintf(" %s(before=%s after=%s)", getterMutatedMarker, before, after)
	}
	return mutated + fmt.Sprintf("basicrule=%q document=%q stealth=%q result=%q option=%d", ruleText(mr.BasicRule), ruleText(mr.DocumentRule), ruleText(mr.StealthRule),
		ruleText(mr.GetBasicResult()), mr.GetCosmeticOption())
}

// answer is the full observable answer to q: for host-name requests the DNS
// result and the cosmetic result for the host, for web requests MatchAll, the
// matching result and NetworkEngine.Match.  objs are the result objects.
func (en *engSet) answer(q Q) (snap string, objs []any) {
	var sb strings.Builder
	if q.Host {
		var res *urlfilter.DNSResult
		var ok bool
		if q.DNSType == "" && q.CName == "" && q.CIP == "" && len(q.Tags) == 0 {
			// a question without record type and client data is asked through the short form
			res, ok = en.d.Match(q.Hostname)
		} else {
			res, ok = en.d.MatchRequest(mkDNSReq(q))
		}
		sb.WriteString("DNS " + snapDNS(res, ok))
		opt := rules.CosmeticOptionAll
		if q.CosmeticOpt != 0 {
			opt = rules.CosmeticOption(q.CosmeticOpt) & rules.CosmeticOptionAll
		}
		c := en.e.GetCosmeticResult(q.Hostname, opt)
		fmt.Fprintf(&sb, " cosmetic(%03b)=%q/%q", opt, sortedList(c.ElementHiding.Generic), sortedList(c.ElementHiding.Specific))
		return sb.String(), []any{res, &c}
	}
	req := mkReq(q)
	fmt.Fprintf(&sb, "WEB all=%q ", sortedList(netTexts(en.n.MatchAll(req))))
	mr := en.e.MatchRequest(mkReq(q))
	sb.WriteString(snapWeb(mr))
	r2, ok2 := en.n.Match(mkReq(q))
	fmt.Fprintf(&sb, " netmatch=%q/%v", ruleText(r2), ok2)
	return sb.String(), []any{mr}
}

// resultSet is the set view used where the property speaks of subsets (C19).
func (en *engSet) resultSet(q Q) map[string]bool {
	out := map[string]bool{}
	if q.Host {
		res, _ := en.d.MatchRequest(mkDNSReq(q))
		for _, x := range res.NetworkRules {
			out["n|"+x.Text()] = true
		}
		for _, x := range res.HostRulesV4 {
			out["4|"+x.Text()] = true
		}
		for _, x := range res.HostRulesV6 {
			out["6|"+x.Text()] = true
		}
		return out
	}
	for _, x := range en.n.MatchAll(mkReq(q)) {
		out["n|"+x.Text()] = true
	}
	return out
}

// ---------------------------------------------------------------------------
// mixed lists for the history/concurrency/fault properties

var mixedHostsNames = []string{"example.org", "a.com", "google.com", "sub.example.org"}

// genMixedLists builds lists that populate every table and contain the
// field-sensitive rules (one each that matches iff the client address / client
// name / a tag / the record type / the source is a given value).
func genMixedLists(t *rapid.T, fileChance int) (lists []ListSpec, models []NetModel) {
	var lines []string
	k := rapid.IntRange(8, 36).Draw(t, "nlines")
	for i := 0; i < k; i++ {
		switch rapid.IntRange(0, 6).Draw(t, "linekind") {
		case 0:
			names := append([]string{}, mixedHostsNames...)
			names = append(names, hostColliders[0][0], hostColliders[0][1])
			lines = append(lines, pick(t, "hip", []string{"0.0.0.0", "::1", "10.0.0.1"})+" "+pick(t, "hname", names))
		case 1:
			lines = append(lines, pick(t, "cosm", []string{"example.org##.a", "~a.com##.b", "example.*##.c", "example.org#@#.a", "##.generic",
				"sub.example.org#@#.a", "example.org##.z", "example.org,a.com##.y", "sub.example.org#@#.c", "a.com#@#.y",
				"##.g2", "##.g3", "~example.org##.n1", "~sub.example.org##.n2", "~a.com,~google.com##.n3", "a.com#@#.g2"}))
		case 2:
			lines = append(lines, "||example.org^$dnsrewrite="+pick(t, "rw", []string{"1.2.3.4", "NXDOMAIN", "NOERROR;MX;10 m.x", "x.com", "NOERROR;A;4.3.2.1"})+pick(t, "rwimp", []string{"", ",important"}))
		case 3:
			lines = append(lines, "@@||example.org^$dnsrewrite"+pick(t, "rwexc", []string{"", "=1.2.3.4", "=NOERROR;MX;10 m.x"}))
		default:
			m := genNetModel(t, modelOpts{patterns: c01Pats, modChance: 4})
			if wideMask(m.Pat) && !m.hasRestriction() {
				m.DPerm = []string{"example.org"}
			}
			models = append(models, m)
			lines = append(lines, renderNet(t, m))
		}
	}
	sensitive := []NetModel{
		{Pat: "||example.org^", CPerm: []Cli{{"ip", "1.2.3.4"}}},
		{Pat: "||example.org^", CPerm: []Cli{{"name", "Kids"}}},
		{Pat: "||example.org^", GPerm: []string{"phone"}},
		{Pat: "||example.org^", QPerm: []string{"A"}},
		{Pat: "||example.org^", DPerm: []string{"a.com"}},
		{Pat: "||example.org^", Exc: true, CPerm: []Cli{{"cidr", "10.0.0.0/8"}}, Extra: []string{"important"}},
		{Pat: "example", GRestr: []string{"pc"}, Deny: []string{"b.net"}},
		{Pat: "||1.2.3.4^", Deny: []string{"b.net"}},
		{Pat: "1.2.", Deny: []string{"x-y.net"}, QPerm: []string{"A"}},
		{Pat: "||a.com^", Exc: true, Extra: []string{"document"}},
		{Pat: "||b.net^", Exc: true, Extra: []string{"genericblock"}},
		// $domain rules on several levels of one source host (domain-table buckets walked in order)
		{Pat: "ab", DPerm: []string{"org"}},
		{Pat: "ab", DPerm: []string{"example.org", "a.com"}},
		{Pat: "ab", DPerm: []string{"sub.example.org"}},
	}
	for _, m := range sensitive {
		models = append(models, m)
		lines = append(lines, renderNet(t, m))
	}
	// badfilter twins of some rules with multi-valued lists, written in another value order
	for i := rapid.IntRange(0, 3).Draw(t, "ntwins"); i > 0; i-- {
		m := models[rapid.IntRange(0, len(models)-1).Draw(t, "twin-of")]
		if inList("badfilter", m.Extra) {
			continue
		}
		tw := m
		tw.Extra = append(append([]string{}, m.Extra...), "badfilter")
		lines = append(lines, renderNet(t, tw))
	}
	if chance(t, "multi-valued-twin", 2) {
		m := NetModel{Pat: "||example.org^", QPerm: []string{"TXT", "A", "MX", "AAAA"}, Deny: []string{"x-y.net", "b.net", "a.com"}}
		tw := m
		tw.Extra = []string{"badfilter"}
		models = append(models, m)
		lines = append(lines, renderNet(t, m), renderNet(t, tw))
	}
	if chance(t, "shared-host-lines", 2) {
		lines = append(lines, "0.0.0.0 shared.example alias1.example", "10.0.0.1 shared.example alias2.example", "::1 alias3.example shared.example",
			"127.0.0.1 twice.example twice.example", "::1 twice.example other.twice.example twice.example")
	}
	if chance(t, "regex-block", 2) {
		lines = append(lines, "/ads[0-9]?/", "/banner_?ad/", "/exampl[e]\\.org/", "/goog+le/", "/x\\.js$/$script", "/^https?:\\/\\/a\\.com/", "@@/adsa[0-9]/",
			// regex rules with their own long shortcuts: different URLs reach different ones first
			"/bannerx[0-9]/", "/adsgpq\\d/", "/trackerz+/", "/pixelw[a-z]{2}/", "@@/counterv\\d+/",
			// expressions that cannot be compiled: such a rule never matches, however often it is reached
			"/bannerx(?!y)/", "/(a)\\1dsgpq/", "/trackerz(?=z)/$image")
		// regex rules whose text is new in this process (a process-wide cache keyed by text has not seen them)
		k := rapid.IntRange(0, 1<<30).Draw(t, "fresh-regex-id")
		for _, c := range "abcd" {
			lines = append(lines, fmt.Sprintf("/uniq%d%c[0-9]/", k, c))
		}
		if chance(t, "same-regex-two-rules", 2) {
			// one expression in two rules that no single request reaches both, only one of them case-sensitive
			lines = append(lines, fmt.Sprintf("/Uniq%dp[0-9]/$image", k), fmt.Sprintf("/Uniq%dp[0-9]/$script,match-case", k))
		}
	}
	if chance(t, "match-case-regex-block", 2) {
		// case-sensitive expressions whose literal beginning (with capitals and escaped characters) is longer than
		// any literal the rule text offers as a shortcut; asked several times in a row by the block queries
		lines = append(lines, "/Ad\\.Banner\\/Promo[0-9]/$match-case", "/^https?:\\/\\/X\\.Com\\/Track[0-9]+/$match-case", "/AdBanner[0-9]?\\.gif/$match-case")
	}
	if chance(t, "domain-bucket-block", 2) {
		// several short-pattern rules in the $domain buckets of a domain and of its sub-domain
		// together with /a9 the domain's bucket gets 3, 5, 6 or 7 entries: never a full backing array.
		// (No rule is filed under the top-level label of this domain.)
		for i := pick(t, "domain-bucket-size", []int{2, 4, 5, 6, 4}); i > 0; i-- {
			lines = append(lines, fmt.Sprintf("/a%d$domain=dbucket.net", i))
		}
		lines = append(lines, "/b1$domain=sub.dbucket.net", "/b2$domain=sub.dbucket.net|a.com", "/a9$domain=dbucket.net|sub.dbucket.net")
	}
	if chance(t, "cname-block", 2) {
		// rewrites whose targets differ in letter case only, and an exception for one spelling
		lines = append(lines, "||cn.example^$dnsrewrite=CDN.Example.net", "@@||cn.example^$dnsrewrite=cdn.example.net", "||cn.example^$dnsrewrite=Other.Example.NET",
			"||cn2.example^$dnsrewrite=NOERROR;CNAME;Target.Example", "@@||cn2.example^$dnsrewrite=NOERROR;CNAME;target.example")
	}
	if chance(t, "referrer-page-block", 2) {
		// document-level exceptions for single pages of one referrer host
		lines = append(lines, "@@||page.example/checkout^$urlblock", "||ads.example^", "@@||page.example/cart^$genericblock", "||ads.example/x.js$domain=page.example")
	}
	if chance(t, "many-client-names-block", 2) {
		// $client lists long enough for an index to pay off
		var names []string
		for i := 0; i < rapid.IntRange(16, 40).Draw(t, "nclient-names"); i++ {
			names = append(names, fmt.Sprintf("dev%02d", (i*7)%41))
		}
		lines = append(lines, "||clients.example^$client="+strings.Join(names, "|"), "@@||clients.example^$client=~"+strings.Join(names[:16], "|~"))
	}
	if chance(t, "bucket-sharing-block", 2) {
		// several rules in one shortcut bucket, and rules in other buckets that the same URLs reach later
		for i := rapid.IntRange(3, 6).Draw(t, "bucket-size"); i > 0; i-- {
			lines = append(lines, fmt.Sprintf("adsa6^$ctag=~u%d", i))
		}
		lines = append(lines, "adsgp", "/banner_ad", "adsgp^$ctag=~u9")
	}
	lines = shuffledKeepDup(t, lines)
	lists = distribute(t, lines, rapid.IntRange(1, 3).Draw(t, "nlists"))
	for i := range lists {
		lists[i].File = chance(t, "file", fileChance)
	}
	return lists, models
}

// genFieldToggleQueries returns queries that differ only in one client field.
func genFieldToggleQueries(t *rapid.T) []Q {
	base := Q{Host: true, Hostname: "example.org"}
	var out []Q
	for i := rapid.IntRange(2, 6).Draw(t, "ntoggles"); i > 0; i-- {
		q := base
		switch rapid.IntRange(0, 7).Draw(t, "toggle") {
		case 7:
			// the same host asked with another cosmetic option
			q.Hostname = pick(t, "chost", []string{"example.org", "sub.example.org", "a.com"})
			q.CosmeticOpt = rapid.IntRange(1, 7).Draw(t, "copt")
		case 6:
			// matched by no rule itself; only the referrer matches (a document-level exception)
			q = Q{URL: "http://nomatch.invalid/frame", Src: pick(t, "docsrc", []string{"http://a.com/", "http://b.net/"}), Typ: "subdocument"}
		case 0:
			q.CIP = pick(t, "tip", []string{"1.2.3.4", "10.0.0.1", "9.9.9.9"})
		case 1:
			q.CName = pick(t, "tname", []string{"Kids", "abc"})
		case 2:
			q.Tags = []string{pick(t, "ttag", []string{"phone", "pc"})}
		case 3:
			q.DNSType = pick(t, "ttype", []string{"A", "AAAA"})
		case 4:
			q = Q{URL: "http://example.org/", Src: pick(t, "tsrc", []string{"http://a.com/", "http://b.net/", ""}), Typ: "script"}
		}
		out = append(out, q)
	}
	return out
}

// genBlockQueries returns questions aimed at the rule blocks of genMixedLists
// (asked in the returned order).
func genBlockQueries(t *rapid.T) []Q {
	switch rapid.IntRange(0, 5).Draw(t, "block") {
	case 5:
		// the same address several times in a row, for the case-sensitive expressions
		u := pick(t, "mcu", []string{"http://x.com/Ad.Banner/Promo7", "http://X.Com/Track123", "http://x.com/AdBanner7.gif", "http://x.com/ad.banner/promo7"})
		return []Q{{URL: u, Typ: "script"}, {URL: u, Typ: "script"}, {URL: u, Typ: "image"}}
	case 4:
		// address literals and domain names in turn (a $denyallow rule treats the two kinds differently)
		var out []Q
		for i := rapid.IntRange(3, 7).Draw(t, "nmixed"); i > 0; i-- {
			out = append(out, Q{Host: true, Hostname: pick(t, "mixed-host", []string{"1.2.3.4", "example.org", "1.2.9.9", "sub.example.org", "1.2.3.4", "example.org"}), DNSType: pick(t, "mixed-type", []string{"", "A"})})
		}
		return out
	case 3:
		// named clients asking for the host of the rule with many client names
		var out []Q
		for i := rapid.IntRange(3, 8).Draw(t, "nnamed"); i > 0; i-- {
			out = append(out, Q{Host: true, Hostname: "clients.example", CName: fmt.Sprintf("dev%02d", rapid.IntRange(0, 45).Draw(t, "devno")), CIP: "10.0.0.7"})
		}
		return out
	case 0:
		// first from the sub-domain (walks both buckets), then from the domain itself
		u := pick(t, "dbu", []string{"http://x.com/a1/a2/a3/a4/a5/a6/a9/b1/b2", "http://x.com/a9/a6/a5/a4/a3/a2/a1", "http://x.com/a3", "http://x.com/a1/a2/a3/a4/a5/a6/a9/b1/b2"})
		srcs := []string{"http://sub.dbucket.net/", "http://dbucket.net/", "http://x.sub.dbucket.net/p", "http://dbucket.net/q"}
		if chance(t, "dbrev", 3) {
			srcs = []string{"http://dbucket.net/", "http://sub.dbucket.net/", "http://dbucket.net/"}
		}
		var out []Q
		for _, s := range srcs {
			out = append(out, Q{URL: u, Src: s, Typ: "script"})
		}
		return out
	case 1:
		return []Q{{Host: true, Hostname: "cn.example"}, {Host: true, Hostname: "cn2.example", DNSType: "A"}, {Host: true, Hostname: "cn.example", DNSType: "AAAA"}}
	}
	var out []Q
	for i := rapid.IntRange(2, 5).Draw(t, "npages"); i > 0; i-- {
		out = append(out, Q{URL: "http://ads.example/x.js", Src: "http://page.example/" + pick(t, "page", []string{"checkout", "other", "cart", "", "checkout?step=2"}), Typ: "script"})
	}
	return out
}

// rewriteValues renders the parsed rewrite of every rule: the data the rules
// carry, not only their texts.
func rewriteValues(rs []*rules.NetworkRule) []string {
	var out []string
	for _, r := range rs {
		if r.DNSRewrite == nil {
			continue
		}
		v := any(r.DNSRewrite.Value)
		if rv := reflect.ValueOf(v); rv.IsValid() && rv.Kind() == reflect.Pointer && !rv.IsNil() {
			v = rv.Elem().Interface()
		}
		out = append(out, fmt.Sprintf("%s => rcode=%d type=%d cname=%q value=%+v", r.Text(), r.DNSRewrite.RCode, r.DNSRewrite.RRType, r.DNSRewrite.NewCNAME, v))
	}
	return out
}

// flakyList is a string-backed list whose next retrievals can be made to fail
// (a read error that goes away again).
type flakyList struct {
	*filterlist.StringRuleList
	failNext atomic.Int32
}

func (l *flakyList) RetrieveRule(ruleIdx int) (rules.Rule, error) {
	if l.failNext.Load() > 0 {
		l.failNext.Add(-1)
		return nil, fmt.Errorf("transient read error (injected): %w", filterlist.ErrRuleRetrieval)
	}
	return l.StringRuleList.RetrieveRule(ruleIdx)
}

// newFlakyEngSet builds the engines over string-backed lists wrapped in flakyList.
func newFlakyEngSet(lists []ListSpec) (*engSet, []*flakyList, error) {
	var rl []filterlist.RuleList
	var fl []*flakyList
	for _, l := range lists {
		f := &flakyList{StringRuleList: &filterlist.StringRuleList{ID: l.ID, RulesText: l.Text, IgnoreCosmetic: l.IgnoreCosmetic}}
		fl = append(fl, f)
		rl = append(rl, f)
	}
	st, err := filterlist.NewRuleStorage(rl)
	if err != nil {
		return nil, nil, err
	}
	return &engSet{st: st, e: urlfilter.NewEngine(st), n: urlfilter.NewNetworkEngine(st), d: urlfilter.NewDNSEngine(st), cleanup: func() { _ = st.Close() }}, fl, nil
}
