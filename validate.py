#!/usr/bin/env python3
"""Validates MANIFEST.json and evidence/*.json against the schemas (run with python3-vt)."""
import json, glob, sys, jsonschema
ok = True
try:
    jsonschema.validate(json.load(open('/verif/MANIFEST.json')), json.load(open('/root/.vp/MANIFEST.schema.json')))
except Exception as e:
    ok = False; print("MANIFEST invalid:", str(e)[:500])
es = json.load(open('/root/.vp/EVIDENCE.schema.json'))
for f in sorted(glob.glob('/verif/evidence/*.json')):
    try:
        jsonschema.validate(json.load(open(f)), es)
    except Exception as e:
        ok = False; print(f, "invalid:", str(e)[:300])
print("valid" if ok else "INVALID")
sys.exit(0 if ok else 1)
