#!/usr/bin/env python3
"""Development aid: the hand-written sensitivity mutations of DESIGN.md section 8.  Each is applied to a scratch worktree
of /repo HEAD (never to /repo), the existing suite is run, and the named checks are run through VERIF_REPO.
Usage: devtools/ownmut.py [tier] [name ...]   -> writes notes/sensitivity.json"""
import json, os, subprocess, sys, tempfile, re
env = dict(os.environ, GOFLAGS="-mod=mod", GOPROXY="off", GOSUMDB="off", GOTOOLCHAIN="local")
MUTS = [
 # name, file, old, new, checks expected to notice
 ("C01-window-loop-off-by-one", "lookup/shortcutstable.go", "i <= len(r.URLLowerCase)-shortcutLength", "i < len(r.URLLowerCase)-shortcutLength", ["C01"]),
 ("C01-drop-match-after-bucket-hit", "lookup/shortcutstable.go", "if rule == nil || ruleIn(rule, result) || !rule.Match(r) {", "if rule == nil || ruleIn(rule, result) {", ["C01"]),
 ("C01-subdomains-skip-full-host", "lookup/domainstable.go", "for i := len(parts) - 1; i >= 0; i-- {", "for i := len(parts) - 1; i >= 1; i-- {", ["C01"]),
 ("C02-hostlevel-ignores-restricted-domain", "rules/network.go", "if len(f.permittedDomains) > 0 || len(f.restrictedDomains) > 0 {\n\t\treturn false\n\t}\n\n\tif f.permittedRequestTypes", "if len(f.permittedDomains) > 0 {\n\t\treturn false\n\t}\n\n\tif f.permittedRequestTypes", ["C02"]),
 ("C02-v4-v6-split-via-unmap", "dnsengine.go", "if hostRule.IP.Is4() {", "if hostRule.IP.Unmap().Is4() {", ["C02", "C18"]),
 ("C03-percent-becomes-separator", "rules/regex.go", 'RegexSeparator = "([^ a-zA-Z0-9.%_-]|$)"', 'RegexSeparator = "([^ a-zA-Z0-9._-]|$)"', ["C03"]),
 ("C03-dot-not-escaped", "rules/regex.go", "\t`.`, `\\.`,\n", "", ["C03"]),
 ("C03-braces-not-escaped", "rules/regex.go", "\t`{`, `\\{`,\n\t`}`, `\\}`,\n", "", ["C03"]),
 ("C04-client-names-not-sorted", "rules/clients.go", "\t\tslices.Sort(c.hosts)\n", "", ["C04"]),
 ("C04-ctag-merge-advances-both", "rules/network.go", "} else if r < 0 {\n\t\t\tiRule++\n\t\t} else {", "} else if r < 0 {\n\t\t\tiRule++\n\t\t\tiClient++\n\t\t} else {", ["C04"]),
 ("C04-denyallow-on-source", "rules/network.go", "!f.matchRequestDomain(r.Hostname, r.IsHostnameRequest),", "!f.matchRequestDomain(r.SourceHostname, r.IsHostnameRequest),", ["C04"]),
 ("C05-shortcut-not-lowercased", "rules/network.go", "f.Shortcut = strings.ToLower(shortcut)", "f.Shortcut = shortcut", ["C05"]),
 ("C05-mask-shortcut-keeps-text-after-star", "rules/network.go", 'i := strings.IndexAny(pattern, "*^|")', 'i := strings.IndexAny(pattern, "^|")', ["C05"]),
 ("C06-exception-before-important", "rules/network.go", "\tif important && !rImportant {\n\t\treturn true\n\t}\n\n\tif rImportant && !important {\n\t\treturn false\n\t}\n\n\tif f.Whitelist && !r.Whitelist {\n\t\treturn true\n\t}\n\n\tif r.Whitelist && !f.Whitelist {\n\t\treturn false\n\t}\n",
  "\tif f.Whitelist && !r.Whitelist {\n\t\treturn true\n\t}\n\n\tif r.Whitelist && !f.Whitelist {\n\t\treturn false\n\t}\n\n\tif important && !rImportant {\n\t\treturn true\n\t}\n\n\tif rImportant && !important {\n\t\treturn false\n\t}\n", ["C06", "C07"]),
 ("C06-genericblock-treats-restricted-domain-as-specific", "rules/network.go", "func (f *NetworkRule) IsGeneric() bool {\n\treturn len(f.permittedDomains) == 0", "func (f *NetworkRule) IsGeneric() bool {\n\treturn len(f.permittedDomains) == 0 && len(f.restrictedDomains) == 0", ["C06", "C07"]),
 ("C07-ctag-term-one-side", "rules/network.go", "\tif len(r.permittedClientTags) != 0 || len(r.restrictedClientTags) != 0 {\n\t\trCount++\n\t}\n", "", ["C07"]),
 ("C08-badfilter-bit-in-compare", "rules/network.go", "(f.enabledOptions ^ OptionBadfilter) != r.enabledOptions,", "f.enabledOptions != r.enabledOptions,", ["C08"]),
 ("C09-important-flag-ignored", "dnsrewrite.go", "if !excImportant && nr.IsOptionEnabled(rules.OptionImportant) {", "if false && !excImportant && nr.IsOptionEnabled(rules.OptionImportant) {", ["C09"]),
 ("C10-mx-value-by-value", "rules/dnsrewrite.go", "\t\tv := &DNSMX{\n\t\t\tExchange:   exch,\n\t\t\tPreference: uint16(pref64),\n\t\t}", "\t\tv := DNSMX{\n\t\t\tExchange:   exch,\n\t\t\tPreference: uint16(pref64),\n\t\t}", ["C10"]),
 ("C11-offset-misses-newline", "filterlist/rulescanner.go", "s.currentPos += len(bytes)", "s.currentPos += len(bytes) - 1", ["C11"]),
 ("C11-id-packing-without-mask", "filterlist/rulestoragescanner.go", "return int64(listID)<<32 | int64(ruleIdx)&0xFFFFFFFF", "return int64(listID)<<32 | int64(ruleIdx)", ["C11"]),
 ("C12-scanner-stops-at-bad-line", "filterlist/rulescanner.go", "\t\trule, err := rules.NewRule(line, s.listID)\n", "\t\trule, err := rules.NewRule(line, s.listID)\n\t\tif err != nil && len(line) > 40 {\n\t\t\treturn false\n\t\t}\n", ["C12", "C11"]),
 ("C13-pool-keeps-client-ip", "dnsengine.go", "\treq.ClientIP = dReq.ClientIP\n", "\tif dReq.ClientIP.IsValid() {\n\t\treq.ClientIP = dReq.ClientIP\n\t}\n", ["C13"]),
 ("C13-pool-keeps-tags-when-empty", "dnsengine.go", "\treq.SortedClientTags = dReq.SortedClientTags\n", "\tif len(dReq.SortedClientTags) > 0 {\n\t\treq.SortedClientTags = dReq.SortedClientTags\n\t}\n", ["C13"]),
 ("C13-rewrite-filter-aliases-caller-slice", "rules/match.go", "filtered = rules[:i:i]", "filtered = rules[:i]", ["C13", "C02"]),
 ("C14-cache-lock-removed", "filterlist/storage.go", "\t\t\ts.cacheMu.Lock()\n\t\t\tdefer s.cacheMu.Unlock()\n", "", ["C14"]),
 ("C14-rule-mutex-removed", "rules/network.go", "\tf.Lock()\n\tdefer f.Unlock()\n", "", ["C14"]),
 ("C15-whitelist-ignores-host", "cosmeticengine.go", "\tfor _, rule := range list {\n\t\tif rule.Match(hostname) {\n\t\t\treturn true\n\t\t}\n\t}\n\n\treturn false", "\treturn len(list) > 0", ["C15"]),
 ("C16-jsinject-clears-css", "rules/match.go", "option = option &^ CosmeticOptionJS", "option = option &^ CosmeticOptionJS &^ CosmeticOptionCSS", ["C16"]),
 ("C17-hostname-stops-at-question-mark-only", "filterutil/util.go", 'nextIdx := strings.IndexAny(url[firstIdx:], "/:?")', 'nextIdx := strings.IndexAny(url[firstIdx:], "/?")', ["C17"]),
 ("C18-names-split-on-space-only", "rules/host.go", "\t\tif s[i] == ' ' || s[i] == '\\t' {\n\t\t\tbreak\n\t\t}\n\t}\n\n\tr := s[begin:i]", "\t\tif s[i] == ' ' {\n\t\t\tbreak\n\t\t}\n\t}\n\n\tr := s[begin:i]", ["C18"]),
 ("C19-nil-check-removed-domainstable", "lookup/domainstable.go", "if rule != nil && rule.Match(r) {", "if rule.Match(r) {", ["C19"]),
 ("C19-nil-check-removed-dnsengine", "dnsengine.go", "if rule != nil && rule.Match(hostname) {", "if rule.Match(hostname) {", ["C19"]),
 ("C20-window-compare-inclusive", "proxy/htmlfilter.go", "for i := 0; i < cnt; i++ {", "for i := 0; i <= cnt; i++ {", ["C20"]),
 ("C20-length-before-encoding", "proxy/htmlfilter.go", "res.ContentLength = int64(len(b))", "res.ContentLength = int64(len(modifiedBody))", ["C20"]),
]
def sh(cmd, **kw):
    return subprocess.run(cmd, shell=True, env=env, stdout=subprocess.PIPE, stderr=subprocess.STDOUT, text=True, **kw)
tier = sys.argv[1] if len(sys.argv) > 1 else "quick"
names = set(sys.argv[2:])
outp = "/verif/notes/sensitivity.json"
res = json.load(open(outp)) if os.path.exists(outp) else {}
for name, f, old, new, checks in MUTS:
    if names and name not in names:
        continue
    wt = tempfile.mkdtemp(prefix="ownmut-", dir="/tmp"); os.rmdir(wt)
    sh("git -C /repo worktree add --detach %s HEAD" % wt)
    try:
        p = os.path.join(wt, f); s = open(p).read()
        if s.count(old) != 1:
            print(name, "PATTERN NOT FOUND x%d" % s.count(old)); continue
        open(p, "w").write(s.replace(old, new))
        b = sh("cd %s && go build ./... 2>&1 | tail -3" % wt)
        if sh("cd %s && go build ./..." % wt).returncode != 0:
            print(name, "DOES NOT COMPILE", b.stdout[:300]); continue
        suite = sh("cd %s && go test -vet=off -count=1 ./..." % wt).returncode
        caught, sigs = [], {}
        for c in checks:
            r = subprocess.run("cd /verif && ./check %s %s" % (c, tier), shell=True, env=dict(env, VERIF_REPO=wt), stdout=subprocess.PIPE, stderr=subprocess.DEVNULL, text=True)
            if r.returncode == 1:
                caught.append(c); m = re.search(r"signature: (\S+)", r.stdout); sigs[c] = m.group(1) if m else "?"
            elif r.returncode != 0:
                sigs[c] = "exit %d" % r.returncode
        res[name] = {"file": f, "existing_suite": "passes" if suite == 0 else "fails", "checks_run": checks, "caught_by": caught, "signatures": sigs, "tier": tier}
        json.dump(res, open(outp, "w"), indent=1, sort_keys=True)
        print("%-55s suite=%s caught_by=%s %s" % (name, "passes" if suite == 0 else "FAILS", caught, sigs), flush=True)
    finally:
        sh("git -C /repo worktree remove --force %s; git -C /repo worktree prune" % wt)
