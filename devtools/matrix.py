#!/usr/bin/env python3
"""Development aid: run every quick check against every seeded change, the way the brief prescribes
(git -C /repo apply <patch>; run; git -C /repo checkout -- .), and write seeded/<id>/meta.json and seeded/RESULTS.json.
Usage: devtools/matrix.py [tier] [seeded-id ...]"""
import json, os, re, subprocess, sys, time
V = "/verif"
tier = sys.argv[1] if len(sys.argv) > 1 else "quick"
ids = sys.argv[2:] or sorted(os.listdir(os.path.join(V, "seeded")))
ids = [i for i in ids if os.path.isdir(os.path.join(V, "seeded", i))]
env = dict(os.environ, GOFLAGS="-mod=mod", GOPROXY="off", GOSUMDB="off", GOTOOLCHAIN="local")
props = {}
for l in open(os.path.join(V, "properties.jsonl")):
    p = json.loads(l); props[p["id"]] = p["title"]
allres = {}
rp = os.path.join(V, "seeded", "RESULTS.json")
if os.path.exists(rp):
    allres = json.load(open(rp))
def sh(cmd, **kw):
    return subprocess.run(cmd, shell=True, env=env, stdout=subprocess.PIPE, stderr=subprocess.STDOUT, text=True, errors="replace", **kw)
assert sh("git -C /repo status --porcelain").stdout.strip() == "", "/repo not clean"
for sid in ids:
    d = os.path.join(V, "seeded", sid)
    target = sid.split("-")[0]
    patch = os.path.join(d, "patch.diff")
    demo = os.path.join(d, "demo_test.go")
    first = open(demo).readline()
    m = re.search(r"place in:\s*([^\s`]+)", first)
    ddir = (m.group(1) if m else ".").rstrip("/").replace("repo-root", ".").replace("(repo", ".")
    if not os.path.isdir(os.path.join("/repo", ddir)):
        ddir = "."
    t0 = time.time()
    def run_demo():
        dst = os.path.join("/repo", ddir, "zz_seeded_demo_test.go")
        sh("cp %s %s" % (demo, dst))
        # a demonstration that says so on its first line needs the race detector
        race = "-race " if "-race" in first else ""
        r = sh("cd /repo/%s && go test %s-tags verif -vet=off -count=1 -timeout 300s . " % (ddir, race))
        os.remove(dst)
        return r.returncode
    demo_clean = run_demo()
    r = sh("git -C /repo apply %s" % patch)
    if r.returncode != 0:
        print(sid, "PATCH DOES NOT APPLY", r.stdout); continue
    try:
        suite = sh("cd /repo && go build ./... && go test -vet=off -count=1 ./...").returncode
        demo_changed = run_demo()
        caught, inconclusive, sigs = [], [], {}
        only_own = os.environ.get("MATRIX_CHECKS") == "own"
        for pid in ([target] if only_own else sorted(props)):
            r = sh("cd /verif && ./check %s %s" % (pid, tier))
            if r.returncode == 1:
                caught.append(pid)
                mm = re.search(r"signature: (\S+)", r.stdout)
                sigs[pid] = mm.group(1) if mm else "?"
            elif r.returncode != 0:
                inconclusive.append(pid)
    finally:
        sh("git -C /repo checkout -- . && git -C /repo clean -fdq")
    notes = open(os.path.join(d, "author-notes.txt")).read() if os.path.exists(os.path.join(d, "author-notes.txt")) else ""
    meta = {
        "id": sid, "breaks_property": target, "property_title": props[target],
        "needs_to_manifest": "see author-notes.txt (written by the sub-agent that produced the change)",
        "demonstration": "demo_test.go (place in /repo/%s)" % ddir,
        "confirmed": {
            "existing_suite_with_change_exit": suite,
            "demonstration_on_unchanged_tree_exit": demo_clean,
            "demonstration_with_change_exit": demo_changed,
        },
        "what_was_run": ["git -C /repo apply seeded/%s/patch.diff" % sid, "cd /repo && go build ./... && go test -vet=off -count=1 ./...",
                         "go test -tags verif (demo_test.go copied into /repo/%s) before and after applying the patch" % ddir,
                         ("./check %s %s (own property only)" % (target, tier)) if os.environ.get("MATRIX_CHECKS") == "own" else "./check <every property> %s" % tier, "git -C /repo checkout -- ."],
        "checks_reporting_violation_%s" % tier: caught, "signatures": sigs, "checks_inconclusive": inconclusive,
        "caught_by_own_property_check": target in caught,
    }
    json.dump(meta, open(os.path.join(d, "meta.json"), "w"), indent=1)
    allres[sid] = {"caught_by": caught, "signatures": sigs, "inconclusive": inconclusive, "suite_exit": suite, "demo_clean": demo_clean, "demo_changed": demo_changed, "tier": tier}
    json.dump(allres, open(rp, "w"), indent=1, sort_keys=True)
    print("%s suite=%d demo(clean/changed)=%d/%d caught_by=%s inconclusive=%s (%.0fs)" % (sid, suite, demo_clean, demo_changed, caught, inconclusive, time.time() - t0), flush=True)
assert sh("git -C /repo status --porcelain").stdout.strip() == "", "/repo not clean at end"
