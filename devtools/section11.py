#!/usr/bin/env python3
"""Writes the table of DESIGN.md section 11 from seeded/RESULTS.json and seeded/DESCRIPTIONS.json (stdout)."""
import json
R = json.load(open('/verif/seeded/RESULTS.json'))
D = json.load(open('/verif/seeded/DESCRIPTIONS.json'))
print("| Seeded change | What it does (site) | Needs, to manifest | Quick checks reporting a violation (signature of the own-property check) |")
print("|---|---|---|---|")
for sid in sorted(D):
    r = R.get(sid)
    if not r:
        continue
    own = sid.split('-')[0]
    sig = r['signatures'].get(own, '—')
    caught = ", ".join(("**%s**" % c) if c == own else c for c in r['caught_by']) or "none"
    print("| %s | %s | %s | %s (`%s`) |" % (sid, D[sid][0].replace('|', '\\|'), D[sid][1].replace('|', '\\|'), caught, sig))
