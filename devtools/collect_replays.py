#!/usr/bin/env python3
"""Development aid: for every seeded change, run the quick check of its property against a scratch worktree with the
change applied (VERIF_REPO) and keep the shrunk failing case as replays/<ID>-seeded-<change>.json, so that the
regression tier re-runs it first in every later run."""
import json, os, re, shutil, subprocess, sys, tempfile
V = "/verif"
env = dict(os.environ, GOFLAGS="-mod=mod", GOPROXY="off", GOSUMDB="off", GOTOOLCHAIN="local")
ids = sys.argv[1:] or sorted(d for d in os.listdir(V + "/seeded") if os.path.isdir(V + "/seeded/" + d))
for sid in ids:
    pid = sid.split("-")[0]
    dest = "%s/replays/%s-seeded-%s.json" % (V, pid, sid)
    if os.path.exists(dest):
        continue
    wt = tempfile.mkdtemp(prefix="collect-", dir="/tmp"); os.rmdir(wt)
    subprocess.run("git -C /repo worktree add --detach %s HEAD" % wt, shell=True, env=env, stdout=subprocess.DEVNULL, stderr=subprocess.DEVNULL)
    try:
        if subprocess.run("git -C %s apply %s/seeded/%s/patch.diff" % (wt, V, sid), shell=True).returncode != 0:
            print(sid, "patch does not apply"); continue
        r = subprocess.run("cd /verif && ./check %s quick" % pid, shell=True, env=dict(env, VERIF_REPO=wt), stdout=subprocess.PIPE, stderr=subprocess.DEVNULL, text=True)
        m = re.search(r"VIOLATION property=\S+ replay=(\S+)", r.stdout)
        if r.returncode != 1 or not m:
            print(sid, "not reported (exit %d)" % r.returncode); continue
        src = m.group(1)
        try:
            rf = json.load(open(src))
        except Exception as e:
            print(sid, "unreadable replay", e); continue
        if rf.get("case") is None or os.path.getsize(src) > 400000:
            print(sid, "no case / too large (%d bytes)" % os.path.getsize(src)); continue
        rf["note"] = "shrunk case found with seeded change %s applied (passes on the unchanged tree)" % sid
        json.dump(rf, open(dest, "w"), indent=1)
        print(sid, "->", os.path.basename(dest), rf.get("signature"), flush=True)
    finally:
        subprocess.run("git -C /repo worktree remove --force %s; git -C /repo worktree prune" % wt, shell=True, stdout=subprocess.DEVNULL, stderr=subprocess.DEVNULL)
