#!/bin/bash
# Development aid (not part of any registered check): evaluate a seeded change.
#   devtools/evalmut.sh <patch.diff> <demo_test.go|-> <tier> [check ids...]
# Creates a scratch worktree of /repo HEAD under /tmp, verifies that the change compiles and the existing suite passes,
# that the demonstration fails with the change and passes without it, then runs the checks against the worktree
# (VERIF_REPO) and prints which ones report a violation.  The worktree is removed afterwards.
set -u
export GOFLAGS=-mod=mod GOPROXY=off GOSUMDB=off GOTOOLCHAIN=local
PATCH=$(readlink -f "$1"); DEMO="$2"; TIER="${3:-quick}"; shift 3 || true
IDS="$@"; [ -z "$IDS" ] && IDS=$(seq -f "C%02g" 1 20)
WT=$(mktemp -d /tmp/evalmut-XXXXXX); rmdir "$WT"
git -C /repo worktree add --detach "$WT" HEAD >/dev/null 2>&1 || { echo "worktree failed"; exit 2; }
cleanup() { git -C /repo worktree remove --force "$WT" >/dev/null 2>&1; git -C /repo worktree prune; }
trap cleanup EXIT
demo_run() { # $1 = label
  [ "$DEMO" = "-" ] && return 0
  local dir=$(head -1 "$DEMO" | sed -n 's|.*place in: *\([^ ]*\).*|\1|p'); [ -z "$dir" ] && dir="."; [ -d "$WT/$dir" ] || dir="."
  cp "$DEMO" "$WT/$dir/zz_seeded_demo_test.go"
  local race=""; head -1 "$DEMO" | grep -q -- "-race" && race="-race"
  (cd "$WT/$dir" && go test $race -tags verif -vet=off -count=1 -timeout 300s -run . . >/tmp/evalmut-demo.$$ 2>&1); local rc=$?
  rm -f "$WT/$dir/zz_seeded_demo_test.go"
  echo "demo[$1]: exit $rc"; return $rc
}
demo_run unchanged; D0=$?
git -C "$WT" apply "$PATCH" || { echo "PATCH DOES NOT APPLY"; exit 2; }
(cd "$WT" && go build ./... && go vet ./... >/dev/null 2>&1; go test -vet=off -count=1 ./... 2>&1 | grep -v "no test files" | grep -v "^ok" | head -5); S=${PIPESTATUS[0]}
(cd "$WT" && go test -vet=off -count=1 ./... >/dev/null 2>&1); S=$?
echo "suite with change: exit $S"
demo_run changed; D1=$?
CAUGHT=""
for id in $IDS; do
  out=$(cd /verif && VERIF_REPO="$WT" ./check $id $TIER 2>/dev/null); rc=$?
  if [ $rc -eq 1 ]; then CAUGHT="$CAUGHT $id"; echo "$out" | grep -A2 "^VIOLATION" | cut -c1-400; elif [ $rc -ne 0 ]; then echo "$id: exit $rc (inconclusive)"; fi
done
echo "SUMMARY patch=$(basename $(dirname $PATCH))/$(basename $PATCH) suite_exit=$S demo_unchanged=$D0 demo_changed=$D1 caught_by:${CAUGHT:- NONE}"
rm -f /tmp/evalmut-demo.$$
